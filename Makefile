# Builds the simulation harnesses against /repo's CURRENT working tree (header-only: -I/repo/include).
# -MMD dependency files make every check rebuild exactly what an edit under /repo/include invalidates.
REPO ?= /repo
B := build
CXX := g++
STD := -std=c++17
BASE := $(STD) -g -DNDEBUG -DNMTOOLS_VERIF -ffp-contract=off -Wno-deprecated-declarations -I$(REPO)/include -MMD -MP
PLAIN := -O1 -DSIM_BUILD_TAG='"plain"'
ASAN := -O1 -fsanitize=address,undefined -fno-sanitize-recover=undefined -fno-omit-frame-pointer -DSIM_BUILD_TAG='"asan"'

C19_SRC := checks/c19/main.cpp checks/c19/seq.cpp checks/c19/sum.cpp checks/c19/prod.cpp
C19_INC := -include sim/redirect_malloc.hpp

C20_SRC := checks/c20/main.cpp $(wildcard checks/c20/kinds_*.cpp)

define flavour_rules
# $(1)=flavour name, $(2)=flags
$(B)/$(1)/c19/%.o: checks/c19/%.cpp
	@mkdir -p $$(dir $$@)
	$(CXX) $(BASE) $(2) $(C19_INC) -c $$< -o $$@
$(B)/$(1)/sim/%.o: sim/%.cpp
	@mkdir -p $$(dir $$@)
	$(CXX) $(BASE) $(2) -c $$< -o $$@
$(B)/$(1)/c20/%.o: checks/c20/%.cpp
	@mkdir -p $$(dir $$@)
	$(CXX) $(BASE) $(2) -c $$< -o $$@
$(B)/$(1)/c20/c20: $(patsubst checks/c20/%.cpp,$(B)/$(1)/c20/%.o,$(C20_SRC)) $(B)/$(1)/sim/hostheap.o
	$(CXX) $(2) $$^ -o $$@
$(B)/$(1)/c19/c19: $(patsubst checks/c19/%.cpp,$(B)/$(1)/c19/%.o,$(C19_SRC)) $(B)/$(1)/sim/hostheap.o
	$(CXX) $(2) $$^ -o $$@
endef

$(eval $(call flavour_rules,plain,$(PLAIN)))
$(eval $(call flavour_rules,asan,$(ASAN)))

c19-plain: $(B)/plain/c19/c19
c19-asan: $(B)/asan/c19/c19
c20-plain: $(B)/plain/c20/c20
c20-asan: $(B)/asan/c20/c20

-include $(shell find $(B) -name '*.d' 2>/dev/null)

.PHONY: c19-plain c19-asan c20-plain c20-asan clean
clean:
	rm -rf $(B)
