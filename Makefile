# Builds the simulation harnesses against /repo's CURRENT working tree (header-only: -I/repo/include).
# -MMD dependency files make every check rebuild exactly what an edit under /repo/include invalidates.
REPO ?= /repo
B := build
CXX := g++
STD := -std=c++17
BASE := $(STD) -g -DNDEBUG -DNMTOOLS_VERIF -ffp-contract=off -Wno-deprecated-declarations -I$(REPO)/include -MMD -MP
PLAIN := -O1 -DSIM_BUILD_TAG='"plain"'
ASAN := -O1 -fsanitize=address,undefined -fno-sanitize-recover=undefined -fno-omit-frame-pointer -DSIM_BUILD_TAG='"asan"'

C19_SRC := checks/c19/main.cpp checks/c19/seq.cpp checks/c19/sum.cpp checks/c19/prod.cpp
C19_INC := -include sim/redirect_malloc.hpp

C20_SRC := checks/c20/main.cpp $(wildcard checks/c20/kinds_*.cpp) $(wildcard checks/c20/views_*.cpp)

C13_PIPES := $(patsubst checks/c13/%.cpp,%,$(wildcard checks/c13/pipelines_*.cpp))
C13_FLAGS_cuda := -DC13_BACKEND_CUDA -include sim/shim/cuda_runtime_sim.hpp
C13_FLAGS_hip := -DC13_BACKEND_HIP -Isim/shim
C13_FLAGS_sycl := -DC13_BACKEND_SYCL -Isim/shim

define c13_rules
# $(1)=flavour, $(2)=flags, $(3)=backend
$(B)/$(1)/c13/$(3)/%.o: checks/c13/%.cpp
	@mkdir -p $$(dir $$@)
	$(CXX) $(BASE) $(2) $$(C13_FLAGS_$(3)) -c $$< -o $$@
$(B)/$(1)/c13/c13_$(3): $(B)/$(1)/c13/main.o $$(patsubst %,$(B)/$(1)/c13/$(3)/%.o,$$(C13_PIPES))
	$(CXX) $(2) $$^ -o $$@
endef

define flavour_rules
# $(1)=flavour name, $(2)=flags
$(B)/$(1)/c19/%.o: checks/c19/%.cpp
	@mkdir -p $$(dir $$@)
	$(CXX) $(BASE) $(2) $(C19_INC) -c $$< -o $$@
$(B)/$(1)/sim/%.o: sim/%.cpp
	@mkdir -p $$(dir $$@)
	$(CXX) $(BASE) $(2) -c $$< -o $$@
$(B)/$(1)/c20/%.o: checks/c20/%.cpp
	@mkdir -p $$(dir $$@)
	$(CXX) $(BASE) $(2) -c $$< -o $$@
$(B)/$(1)/c20/c20: $(patsubst checks/c20/%.cpp,$(B)/$(1)/c20/%.o,$(C20_SRC)) $(B)/$(1)/sim/hostheap.o
	$(CXX) $(2) $$^ -o $$@
$(B)/$(1)/c13/main.o: checks/c13/main.cpp
	@mkdir -p $$(dir $$@)
	$(CXX) $(BASE) $(2) -c $$< -o $$@
$(B)/$(1)/c19/c19: $(patsubst checks/c19/%.cpp,$(B)/$(1)/c19/%.o,$(C19_SRC)) $(B)/$(1)/sim/hostheap.o
	$(CXX) $(2) $$^ -o $$@
endef

$(eval $(call flavour_rules,plain,$(PLAIN)))
$(eval $(call flavour_rules,asan,$(ASAN)))
$(foreach be,cuda hip sycl,$(eval $(call c13_rules,plain,$(PLAIN),$(be))))
$(foreach be,cuda hip sycl,$(eval $(call c13_rules,asan,$(ASAN),$(be))))

c19-plain: $(B)/plain/c19/c19
c19-asan: $(B)/asan/c19/c19
c20-plain: $(B)/plain/c20/c20
c20-asan: $(B)/asan/c20/c20
c13-plain: $(B)/plain/c13/c13_cuda $(B)/plain/c13/c13_hip $(B)/plain/c13/c13_sycl
c13-asan: $(B)/asan/c13/c13_cuda $(B)/asan/c13/c13_hip $(B)/asan/c13/c13_sycl

-include $(shell find $(B) -name '*.d' 2>/dev/null)

.PHONY: c19-plain c19-asan c20-plain c20-asan c13-plain c13-asan clean
clean:
	rm -rf $(B)
