// Link-time seams: the simulated host heap, the nmtools_malloc redirect targets, and a replaced global
// operator new/delete that routes to simheap only while the thread is inside the system under test.
#include "hostheap.hpp"
#include <cstdlib>
#include <new>

namespace sim {
SimHeap& host_heap() { static SimHeap h("host"); return h; }
thread_local int tl_sut_depth = 0;

void* sut_malloc(std::size_t n) { return host_heap().malloc(n); }
void* sut_calloc(std::size_t a, std::size_t b) { return host_heap().calloc(a, b); }
void* sut_realloc(void* p, std::size_t n) { return host_heap().realloc(p, n); }
void  sut_free(void* p) { host_heap().free(p); }
}

static void* sim_new(std::size_t n) {
    if (sim::tl_sut_depth > 0 && sim::tl_in_sim == 0) {
        void* p = sim::host_heap().malloc(n ? n : 1);
        if (p) return p;
    }
    void* p = std::malloc(n ? n : 1);
    if (!p) std::abort();
    return p;
}
static void sim_delete(void* p) noexcept {
    if (!p) return;
    if (sim::host_heap().owns(p)) { sim::host_heap().free(p); return; }
    std::free(p);
}
void* operator new(std::size_t n) { return sim_new(n); }
void* operator new[](std::size_t n) { return sim_new(n); }
void* operator new(std::size_t n, const std::nothrow_t&) noexcept { return sim_new(n); }
void* operator new[](std::size_t n, const std::nothrow_t&) noexcept { return sim_new(n); }
void operator delete(void* p) noexcept { sim_delete(p); }
void operator delete[](void* p) noexcept { sim_delete(p); }
void operator delete(void* p, std::size_t) noexcept { sim_delete(p); }
void operator delete[](void* p, std::size_t) noexcept { sim_delete(p); }
void operator delete(void* p, const std::nothrow_t&) noexcept { sim_delete(p); }
void operator delete[](void* p, const std::nothrow_t&) noexcept { sim_delete(p); }
