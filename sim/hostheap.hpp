// The host-side simulated heap shared by the C19/C20 harnesses, the "inside the system under test"
// scope, and poisoned object slots.
#pragma once
#include "simheap.hpp"
#include "plan.hpp"
#include <new>

namespace sim {

SimHeap& host_heap();

// While > 0 the global operator new routes to simheap (std::vector buffers of the system under test).
extern thread_local int tl_sut_depth;
struct Sut { Sut() { ++tl_sut_depth; } ~Sut() { --tl_sut_depth; } };

// Simulator-owned object storage: poisoned before construction and after destruction so that a read of an
// unconstructed or destroyed sub-object is a deterministic value, not stack garbage.
template <size_t N, size_t BYTES>
struct Slots {
    alignas(64) unsigned char mem[N][BYTES];
    bool live[N] = {};
    unsigned char poison = 0xE7;
    SIM_NO_ASAN void reset(unsigned char p) {
        poison = p ? p : 0xE7;
        for (size_t i = 0; i < N; i++) { live[i] = false; SIM_ASAN_UNPOISON(mem[i], BYTES); std::memset(mem[i], poison, BYTES); }
    }
    void* at(size_t i) { return mem[i]; }
    SIM_NO_ASAN void kill(size_t i) { live[i] = false; std::memset(mem[i], (unsigned char)(poison ^ 0x55), BYTES); }
    bool inside(size_t i, const void* p, size_t n) const {
        auto c = static_cast<const unsigned char*>(p);
        return c >= mem[i] && c + n <= mem[i] + BYTES;
    }
};

// heap behaviour is part of the plan (header keys heap.*), drawn per run from the "heap" stream
inline void gen_heapcfg(Plan& p, Rng r) {
    p.seti("heap.reuse", (long)r.below(4));
    p.seti("heap.malloc0_null", (long)r.below(2));
    p.setu("heap.poison", r.next() | 1);
    p.seti("heap.fill", (long)r.below(3));
    p.seti("slot.poison", (long)(1 + r.below(255)));
}
inline HeapCfg heapcfg_from_plan(const Plan& p) {
    HeapCfg c;
    c.reuse = (int)(p.geti("heap.reuse", 0) & 3);
    c.malloc0_null = p.geti("heap.malloc0_null", 0) != 0;
    c.poison_seed = p.getu("heap.poison", 1);
    c.fill = (int)(p.geti("heap.fill", 0) % 3);
    return c;
}

} // namespace sim
