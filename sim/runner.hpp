// Generic runner: seeded search loop, violation gate (same-plan-twice hash match), fork-isolated
// minimisation (ddmin + argument shrinking + engine-specific simplifications), replay files.
// Protocol on stdout (one line each, flushed):
//   B <idx>                                   run started
//   E <idx> <hash> <sig> <nontrivial> <ticks> <vclass|OK>
//   FOUND <idx> class=<c> key=<k> replay=<path> steps=<n> execs=<m> detail=<...>
//   DUP <idx> class=<c> key=<k>               same key already minimised by this worker
//   NONDET <idx> ...                          simulator not deterministic (infrastructure error)
//   P <plan oneline>                          sample plan
//   S <probe> <count>                         reach probes, at exit
#pragma once
#include <cstdio>
#include <cstdlib>
#include <cstring>
#include <string>
#include <vector>
#include <set>
#include <map>
#include <fstream>
#include <sstream>
#include <functional>
#include <algorithm>
#include <ctime>
#include <unistd.h>
#include <fcntl.h>
#include <sys/wait.h>
#include <sys/stat.h>
#include <sys/mman.h>
#include <signal.h>
#include "rng.hpp"
#include "plan.hpp"
#include "trace.hpp"

namespace sim {

struct Outcome {
    std::string vclass, detail, key;
    uint64_t hash = 0, sig = 0, ticks = 0, sig2 = 0;
    bool nontrivial = false;
    bool failed() const { return !vclass.empty(); }
};

struct Engine {
    virtual ~Engine() {}
    virtual const char* property() const = 0;
    virtual const char* name() const = 0;
    virtual Plan generate(uint64_t run_seed, const std::string& tier) = 0;
    // interpret the plan against the real code; violations via sim::fail(); must be a pure function of the plan
    virtual void execute(const Plan& p) = 0;
    // engine-specific simplifications of a failing plan, simplest first
    virtual std::vector<Plan> simplify(const Plan&) { return {}; }
    // may step arguments be shrunk generically (toward 0)?
    virtual bool shrink_args() const { return true; }
    // filled by execute():
    uint64_t sig = 0, ticks = 0;
    bool nontrivial = false;
    uint64_t sig2 = 0;   // optional second distinctness measure (0 = none), e.g. hash of the executed thread schedule
};

// self-test knob of the watchdog (never set by the checks): SIM_TEST_HANG_PLAN=<plan hash> makes the execution of that plan spin forever
inline void test_hang_hook(const Plan& p) {
    static const char* want = getenv("SIM_TEST_HANG_PLAN");
    if (want && std::to_string(p.hash()) == want) { volatile unsigned long spin = 0; for (;;) spin++; }
}

inline Outcome run_one(Engine& e, const Plan& p, bool keep_trace = false) {
    test_hang_hook(p);
    trace().reset(keep_trace);
    verdict().clear();
    e.sig = 0; e.ticks = 0; e.nontrivial = false; e.sig2 = 0;
    trace().ev("plan " + std::to_string(p.hash()));
    e.execute(p);
    Outcome o;
    o.vclass = verdict().vclass; o.detail = verdict().detail; o.key = verdict().key;
    if (o.failed() && o.key.empty()) o.key = o.vclass;
    o.hash = trace().h; o.sig = e.sig; o.ticks = e.ticks; o.nontrivial = e.nontrivial; o.sig2 = e.sig2;
    return o;
}

inline std::string sanitize_line(std::string s) {
    for (auto& c : s) if (c == '\n' || c == '\r') c = ' ';
    return s;
}

// Execute a plan in a forked child so that a crash inside the system under test is an outcome, not the end of the worker.
// seconds after which a run counts as hung: one value for the in-process watchdog of the search loop and for forked executions
inline int& hang_timeout() { static int t = 20; return t; }

inline Outcome run_forked(Engine& e, const Plan& p, int timeout_s = 0) {
    if (timeout_s <= 0) timeout_s = hang_timeout();
    int fd[2], efd[2];
    if (pipe(fd) || pipe(efd)) { perror("pipe"); exit(2); }
    fflush(stdout); fflush(stderr);
    crash_note_page()[0] = 0;
    pid_t pid = fork();
    if (pid < 0) { perror("fork"); exit(2); }
    if (pid == 0) {
        close(fd[0]); close(efd[0]);
        dup2(efd[1], 2);
        alarm((unsigned)timeout_s);
        Outcome o = run_one(e, p);
        std::string s = o.vclass + "\n" + sanitize_line(o.detail) + "\n" + o.key + "\n" + std::to_string(o.hash) + "\n" +
                        std::to_string(o.sig) + "\n" + std::to_string(o.ticks) + "\n" + (o.nontrivial ? "1" : "0") + "\n";
        ssize_t w = write(fd[1], s.data(), s.size()); (void)w;
        _exit(0);
    }
    close(fd[1]); close(efd[1]);
    std::string buf, ebuf; char tmp[4096]; ssize_t n;
    // drain stderr first in a non-blocking manner would need poll; sizes are small, so read result pipe then stderr
    while ((n = read(fd[0], tmp, sizeof tmp)) > 0) buf.append(tmp, (size_t)n);
    while ((n = read(efd[0], tmp, sizeof tmp)) > 0) { if (ebuf.size() < (1u << 16)) ebuf.append(tmp, (size_t)n); }
    close(fd[0]); close(efd[0]);
    int st = 0; waitpid(pid, &st, 0);
    Outcome o;
    if (WIFEXITED(st) && WEXITSTATUS(st) == 0 && !buf.empty()) {
        std::stringstream ss(buf); std::string l[7];
        for (auto& x : l) std::getline(ss, x);
        o.vclass = l[0]; o.detail = l[1]; o.key = l[2];
        o.hash = std::strtoull(l[3].c_str(), 0, 10); o.sig = std::strtoull(l[4].c_str(), 0, 10);
        o.ticks = std::strtoull(l[5].c_str(), 0, 10); o.nontrivial = l[6] == "1";
        return o;
    }
    // crash or sanitizer abort
    std::string kind;
    std::string where = crash_note_page();
    if (!where.empty()) where += ":";
    auto pos = ebuf.find("ERROR: AddressSanitizer: ");
    if (pos != std::string::npos) {
        auto s = pos + 25; auto epos = ebuf.find_first_of(" \n", s);
        kind = "asan-" + ebuf.substr(s, epos - s);
    } else if ((pos = ebuf.find("runtime error: ")) != std::string::npos) {
        auto epos = ebuf.find('\n', pos);
        kind = "ubsan"; o.detail = ebuf.substr(pos + 15, epos - pos - 15);
    }
    if (WIFSIGNALED(st)) {
        int sg = WTERMSIG(st);
        if (sg == SIGALRM) { o.vclass = "HANG"; o.key = where + "HANG"; o.detail = "no completion within " + std::to_string(timeout_s) + "s"; }
        else { o.vclass = "CRASH"; o.key = where + "CRASH:sig" + std::to_string(sg); o.detail = std::string("killed by signal ") + std::to_string(sg) + " (" + strsignal(sg) + ")"; }
        if (!kind.empty()) { o.vclass = "SANITIZER"; o.key = where + "SANITIZER:" + kind; }
    } else {
        int ec = WIFEXITED(st) ? WEXITSTATUS(st) : -1;
        if (!kind.empty() || ec == 77) { o.vclass = "SANITIZER"; o.key = where + "SANITIZER:" + (kind.empty() ? std::string("unknown") : kind); if (o.detail.empty()) o.detail = kind; }
        else {
            o.vclass = "CRASH"; o.key = where + "CRASH:exit" + std::to_string(ec);
            std::string first = ebuf.substr(0, ebuf.find('\n'));
            o.detail = "child exited with status " + std::to_string(ec) + (first.empty() ? "" : ": " + first.substr(0, 200));
        }
    }
    return o;
}

struct Minimiser {
    Engine& e; std::string vclass, key; int budget; int execs = 0;
    bool fast;   // in-process candidate execution (only when the failure is not a crash)
    time_t t0; int wall_budget_s;
    Minimiser(Engine& e_, const Outcome& o, int budget_, bool fast_) : e(e_), vclass(o.vclass), key(o.key), budget(budget_), fast(fast_), t0(time(nullptr)),
        wall_budget_s(o.vclass == "HANG" ? 60 : 180) {}
    bool still_fails(const Plan& p) {
        // a hung candidate costs its whole time-out: candidates run against a short time-out (normal runs take milliseconds) and a wall-clock budget
        if (execs >= budget || time(nullptr) - t0 > wall_budget_s) { execs = budget; return false; }
        execs++;
        Outcome o = fast ? run_one(e, p) : run_forked(e, p, 5);
        return o.vclass == vclass && o.key == key;
    }
    Plan run(Plan p) {
        bool progress = true;
        while (progress && execs < budget) {
            progress = false;
            // 1. ddmin on the step list
            size_t chunk = p.steps.size() / 2;
            while (chunk >= 1 && !p.steps.empty()) {
                bool removed = false;
                for (size_t start = 0; start + chunk <= p.steps.size();) {
                    Plan q = p;
                    q.steps.erase(q.steps.begin() + (long)start, q.steps.begin() + (long)(start + chunk));
                    if (still_fails(q)) { p = q; removed = true; progress = true; }
                    else start += chunk;
                }
                if (!removed || chunk > p.steps.size()) chunk /= 2;
                else if (chunk > p.steps.size() / 2 && chunk > 1) chunk = p.steps.size() / 2;
                if (chunk == 0) break;
            }
            // 2. engine-specific simplifications
            bool again = true;
            while (again && execs < budget) {
                again = false;
                for (auto& q : e.simplify(p)) {
                    if (q.str() == p.str()) continue;
                    if (still_fails(q)) { p = q; again = true; progress = true; break; }
                }
            }
            // 3. shrink step arguments toward 0
            if (e.shrink_args()) {
                for (size_t i = 0; i < p.steps.size(); i++)
                    for (size_t j = 0; j < p.steps[i].a.size(); j++) {
                        long v = p.steps[i].a[j];
                        for (long cand : {0L, v / 2, v - 1}) {
                            if (cand < 0 || cand >= v) continue;
                            Plan q = p; q.steps[i].a[j] = cand;
                            if (still_fails(q)) { p = q; progress = true; break; }
                        }
                    }
            }
        }
        return p;
    }
};

inline void write_replay(const std::string& path, const Plan& p, const Outcome& o, Engine& e, const std::string& build) {
    std::ofstream f(path);
    f << "# replay file: minimised plan; re-execute with ./check " << e.property() << " --replay " << path << "\n";
    f << "#! property=" << e.property() << "\n";
    f << "#! engine=" << e.name() << "\n";
    f << "#! build=" << build << "\n";
    f << "#! vclass=" << o.vclass << "\n";
    f << "#! key=" << o.key << "\n";
    f << "#! hash=" << o.hash << "\n";
    f << "#! detail=" << sanitize_line(o.detail) << "\n";
    f << p.str();
}

inline uint64_t run_seed_for(Engine& e, uint64_t verif_seed, uint64_t idx) {
    return mix64(mix64(verif_seed, fnv1a(std::string(e.property()) + "/" + e.name())), idx);
}

#ifndef SIM_BUILD_TAG
#define SIM_BUILD_TAG "plain"
#endif

inline int sim_main(int argc, char** argv, Engine& e) {
    std::vector<std::string> a(argv + 1, argv + argc);
    auto opt = [&](const std::string& k, const std::string& d) {
        for (size_t i = 0; i + 1 < a.size(); i++) if (a[i] == k) return a[i + 1];
        return d;
    };
    auto flag = [&](const std::string& k) { for (auto& x : a) if (x == k) return true; return false; };
    std::string mode = a.empty() ? "" : a[0];
    uint64_t seed = std::strtoull(opt("--seed", "1").c_str(), 0, 10);
    std::string tier = opt("--tier", "quick");
    std::string outdir = opt("--replay-dir", "replays");
    int min_budget = std::atoi(opt("--min-budget", "1500").c_str());
    hang_timeout() = std::max(1, std::atoi(opt("--hang-timeout", "20").c_str()));
    setvbuf(stdout, nullptr, _IOLBF, 0);

    if (mode == "--replay") {
        if (a.size() < 2) { fprintf(stderr, "usage: --replay <file>\n"); return 2; }
        std::ifstream f(a[1]);
        if (!f) { fprintf(stderr, "cannot open %s\n", a[1].c_str()); return 2; }
        Plan p; std::vector<std::pair<std::string, std::string>> rec;
        if (!Plan::parse(f, p, &rec)) { fprintf(stderr, "bad replay file\n"); return 2; }
        std::string want_class, want_key, want_hash;
        for (auto& kv : rec) { if (kv.first == "vclass") want_class = kv.second; if (kv.first == "key") want_key = kv.second; if (kv.first == "hash") want_hash = kv.second; }
        // a replay is one deterministic plan, possibly a deliberately large one (the 2^24+1 geometry probe takes seconds), possibly on a
        // loaded machine: it gets a generous time-out; the 20 s default is for the millisecond runs of the search
        // (a plan recorded as HANG only has to show that again, under the search's time-out)
        Outcome o = run_forked(e, p, want_class == "HANG" ? hang_timeout() : std::max(hang_timeout(), 180));
        if (flag("--verbose")) {
            // second, in-process run with the trace kept (only meaningful when the run does not crash)
            if (o.vclass != "CRASH" && o.vclass != "SANITIZER" && o.vclass != "HANG") {
                run_one(e, p, true);
                for (auto& l : trace().lines) printf("T %s\n", l.c_str());
            }
        }
        printf("REPLAY class=%s key=%s hash=%llu detail=%s\n", o.failed() ? o.vclass.c_str() : "OK", o.key.c_str(), (unsigned long long)o.hash, o.detail.c_str());
        if (!o.failed()) { printf("REPLAY-RESULT no violation\n"); return 0; }
        bool same = (want_class.empty() || want_class == o.vclass) && (want_key.empty() || want_key == o.key);
        bool same_hash = want_hash.empty() || want_hash == std::to_string(o.hash) || o.vclass == "CRASH" || o.vclass == "SANITIZER" || o.vclass == "HANG";
        printf("REPLAY-RESULT violation reproduced class_match=%d hash_match=%d\n", same ? 1 : 0, same_hash ? 1 : 0);
        printf("VIOLATION property=%s replay=%s\n", e.property(), a[1].c_str());
        return 1;
    }
    if (mode == "--dump") {
        uint64_t idx = std::strtoull(opt("--idx", "0").c_str(), 0, 10);
        Plan p = e.generate(run_seed_for(e, seed, idx), tier);
        fputs(p.str().c_str(), stdout);
        return 0;
    }
    if (mode != "--run" && mode != "--one") { fprintf(stderr, "usage: %s --run|--one|--replay|--dump ...\n", argv[0]); return 2; }

    uint64_t from = std::strtoull(opt("--from", "0").c_str(), 0, 10);
    uint64_t to = std::strtoull(opt("--to", "1").c_str(), 0, 10);
    bool forked = mode == "--one";
    if (forked) { from = std::strtoull(opt("--idx", "0").c_str(), 0, 10); to = from + 1; }
    int samples_left = std::atoi(opt("--samples", "2").c_str());
    std::set<std::string> seen_keys;
    mkdir(outdir.c_str(), 0755);

    // quiet mode (default for --run): per-run lines are aggregated into checkpoints
    //   A <lo> <hi> <evals> <ticks> <trivial>      G <sig> <sig> ...   (non-trivial signatures of the chunk)
    // and the index of the run in progress is kept in a progress file so that the driver can identify a run that killed the worker.
    bool verbose = forked || flag("--verbose");
    std::string progress = opt("--progress", "");
    int pfd = -1;
    if (!progress.empty()) pfd = open(progress.c_str(), O_WRONLY | O_CREAT | O_TRUNC, 0644);
    uint64_t a_lo = from, a_evals = 0, a_ticks = 0, a_trivial = 0;
    std::vector<uint64_t> a_sigs, a_sigs2;
    auto checkpoint = [&](uint64_t hi) {
        if (verbose) return;
        printf("A %llu %llu %llu %llu %llu\n", (unsigned long long)a_lo, (unsigned long long)hi, (unsigned long long)a_evals, (unsigned long long)a_ticks, (unsigned long long)a_trivial);
        for (size_t i = 0; i < a_sigs.size(); i += 512) {
            std::string l = "G";
            for (size_t j = i; j < a_sigs.size() && j < i + 512; j++) { l += ' '; l += std::to_string(a_sigs[j]); }
            puts(l.c_str());
        }
        for (size_t i = 0; i < a_sigs2.size(); i += 512) {
            std::string l = "H";
            for (size_t j = i; j < a_sigs2.size() && j < i + 512; j++) { l += ' '; l += std::to_string(a_sigs2[j]); }
            puts(l.c_str());
        }
        fflush(stdout);
        a_lo = hi; a_evals = a_ticks = a_trivial = 0; a_sigs.clear(); a_sigs2.clear();
    };

    for (uint64_t idx = from; idx < to; idx++) {
        Plan p = e.generate(run_seed_for(e, seed, idx), tier);
        if (verbose) printf("B %llu\n", (unsigned long long)idx);
        if (pfd >= 0) { char b[32]; int n = snprintf(b, sizeof b, "%020llu\n", (unsigned long long)idx); ssize_t w = pwrite(pfd, b, (size_t)n, 0); (void)w; }
        // watchdog of the in-process search loop: a run that does not finish kills the worker (default action of SIGALRM); the driver
        // finds the run through the progress file and confirms it alone in a forked child, where it is classified HANG
        if (!forked) alarm((unsigned)hang_timeout());
        Outcome o = forked ? run_forked(e, p) : run_one(e, p);
        if (!forked) alarm(0);
        if (verbose) printf("E %llu %llu %llu %d %llu %s\n", (unsigned long long)idx, (unsigned long long)o.hash, (unsigned long long)o.sig,
               o.nontrivial ? 1 : 0, (unsigned long long)o.ticks, o.failed() ? o.vclass.c_str() : "OK");
        a_evals++; a_ticks += o.ticks; if (o.nontrivial) a_sigs.push_back(o.sig); else a_trivial++;
        if (o.sig2) a_sigs2.push_back(o.sig2);
        if (a_evals >= 2000) checkpoint(idx + 1);
        if (!o.failed()) {
            if (samples_left > 0 && o.nontrivial) { samples_left--; printf("P %s\n", p.oneline().c_str()); }
            continue;
        }
        bool crashy = o.vclass == "CRASH" || o.vclass == "SANITIZER" || o.vclass == "HANG";
        // gate 1: the same plan must give the same verdict and the same trace hash again
        if (!forked) alarm((unsigned)hang_timeout());
        Outcome o2 = forked ? run_forked(e, p) : run_one(e, p);
        if (!forked) alarm(0);
        if (o2.vclass != o.vclass || o2.key != o.key || (!crashy && o2.hash != o.hash)) {
            printf("NONDET %llu first=%s/%llu second=%s/%llu\n", (unsigned long long)idx, o.vclass.c_str(), (unsigned long long)o.hash,
                   o2.vclass.c_str(), (unsigned long long)o2.hash);
            continue;
        }
        if (seen_keys.count(o.key)) { printf("DUP %llu class=%s key=%s\n", (unsigned long long)idx, o.vclass.c_str(), o.key.c_str()); continue; }
        seen_keys.insert(o.key);
        Minimiser m(e, o, min_budget, /*fast=*/false);
        Plan q = m.run(p);
        Outcome oq = run_forked(e, q);
        if (oq.vclass != o.vclass || oq.key != o.key) { q = p; oq = o; }   // keep the original if minimisation drifted
        char path[512];
        snprintf(path, sizeof path, "%s/%s-%s-%s-%llu-%llu.replay", outdir.c_str(), e.property(), e.name(), SIM_BUILD_TAG, (unsigned long long)seed, (unsigned long long)idx);
        write_replay(path, q, oq, e, SIM_BUILD_TAG);
        // the unminimised plan is kept next to it: the driver falls back to it when the minimised plan does not reproduce in a fresh process
        // (a defect with undefined behaviour can depend on what a forked minimiser child inherited)
        if (q.str() != p.str()) write_replay(std::string(path) + ".orig", p, o, e, SIM_BUILD_TAG);
        printf("FOUND %llu class=%s key=%s replay=%s steps=%zu execs=%d detail=%s\n", (unsigned long long)idx, oq.vclass.c_str(), oq.key.c_str(), path,
               q.steps.size(), m.execs, sanitize_line(oq.detail).c_str());
    }
    checkpoint(to);
    for (auto& kv : probes()) printf("S %s %llu\n", kv.first.c_str(), (unsigned long long)kv.second);
    printf("DONE %llu %llu\n", (unsigned long long)from, (unsigned long long)to);
    return 0;
}

} // namespace sim

// Sanitizer runs: classify hits by exit code, leaks are accounted by simheap deterministically.
extern "C" __attribute__((used, visibility("default"))) const char* __asan_default_options() {
    return "exitcode=77:detect_leaks=0:abort_on_error=0:allocator_may_return_null=1:detect_stack_use_after_return=1";
}
extern "C" __attribute__((used, visibility("default"))) const char* __ubsan_default_options() {
    return "halt_on_error=1:exitcode=77:print_stacktrace=0";
}
