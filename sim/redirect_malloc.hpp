// Force-included (-include) before any nmtools header: routes the library's own allocation macros
// (utl/vector.hpp:44-62, `#ifndef nmtools_malloc` ...) to the simulated heap. No source change in /repo.
#pragma once
#include <cstddef>
namespace sim {
void* sut_malloc(std::size_t n);
void* sut_calloc(std::size_t a, std::size_t b);
void* sut_realloc(void* p, std::size_t n);
void  sut_free(void* p);
}
#define nmtools_malloc  ::sim::sut_malloc
#define nmtools_calloc  ::sim::sut_calloc
#define nmtools_realloc ::sim::sut_realloc
#define nmtools_free    ::sim::sut_free
