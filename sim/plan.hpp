// A run is the interpretation of an explicit plan: ordered header (key=value) + list of steps.
// Steps carry their own fault annotations and are interpreted modulo what is currently legal,
// so deleting or shrinking steps always yields another valid plan. The plan (not the seed)
// is what a replay file stores.
#pragma once
#include <string>
#include <vector>
#include <sstream>
#include <fstream>
#include <utility>
#include <cstdlib>
#include "rng.hpp"

namespace sim {

struct Step {
    std::string op;
    std::vector<long> a;
    long arg(size_t i, long dflt = 0) const { return i < a.size() ? a[i] : dflt; }
    bool operator==(const Step& o) const { return op == o.op && a == o.a; }
};

struct Plan {
    std::vector<std::pair<std::string, std::string>> hdr;
    std::vector<Step> steps;

    bool has(const std::string& k) const {
        for (auto& kv : hdr) if (kv.first == k) return true;
        return false;
    }
    std::string get(const std::string& k, const std::string& d = "") const {
        for (auto& kv : hdr) if (kv.first == k) return kv.second;
        return d;
    }
    long geti(const std::string& k, long d = 0) const {
        for (auto& kv : hdr) if (kv.first == k) return std::strtol(kv.second.c_str(), nullptr, 10);
        return d;
    }
    uint64_t getu(const std::string& k, uint64_t d = 0) const {
        for (auto& kv : hdr) if (kv.first == k) return std::strtoull(kv.second.c_str(), nullptr, 10);
        return d;
    }
    void set(const std::string& k, const std::string& v) {
        for (auto& kv : hdr) if (kv.first == k) { kv.second = v; return; }
        hdr.emplace_back(k, v);
    }
    void seti(const std::string& k, long v) { set(k, std::to_string(v)); }
    void setu(const std::string& k, uint64_t v) { set(k, std::to_string(v)); }

    // list-valued header entries: "3,1,4"
    std::vector<long> getlist(const std::string& k) const {
        std::vector<long> r; std::string s = get(k);
        if (s.empty()) return r;
        std::stringstream ss(s); std::string t;
        while (std::getline(ss, t, ',')) if (!t.empty()) r.push_back(std::strtol(t.c_str(), nullptr, 10));
        return r;
    }
    void setlist(const std::string& k, const std::vector<long>& v) {
        std::string s;
        for (size_t i = 0; i < v.size(); i++) { if (i) s += ","; s += std::to_string(v[i]); }
        set(k, s);
    }

    std::string str() const {
        std::string s;
        for (auto& kv : hdr) s += kv.first + "=" + kv.second + "\n";
        for (auto& st : steps) {
            s += "step " + st.op;
            for (long x : st.a) s += " " + std::to_string(x);
            s += "\n";
        }
        return s;
    }
    // one-line rendering for evidence samples
    std::string oneline() const {
        std::string s;
        for (auto& kv : hdr) { if (!s.empty()) s += " "; s += kv.first + "=" + kv.second; }
        s += " |";
        for (auto& st : steps) {
            s += " " + st.op + "(";
            for (size_t i = 0; i < st.a.size(); i++) { if (i) s += ","; s += std::to_string(st.a[i]); }
            s += ")";
        }
        return s;
    }
    uint64_t hash() const { return fnv1a(str()); }

    static bool parse(std::istream& in, Plan& p, std::vector<std::pair<std::string, std::string>>* extra = nullptr) {
        std::string line;
        while (std::getline(in, line)) {
            if (line.empty() || line[0] == '#') {
                // "#! key=value" lines carry the recorded verdict; not part of the plan
                if (extra && line.size() > 3 && line[1] == '!') {
                    auto eq = line.find('=');
                    if (eq != std::string::npos) extra->emplace_back(line.substr(3, eq - 3), line.substr(eq + 1));
                }
                continue;
            }
            if (line.compare(0, 5, "step ") == 0) {
                std::stringstream ss(line.substr(5));
                Step st; ss >> st.op; long x;
                while (ss >> x) st.a.push_back(x);
                p.steps.push_back(st);
            } else {
                auto eq = line.find('=');
                if (eq == std::string::npos) return false;
                p.hdr.emplace_back(line.substr(0, eq), line.substr(eq + 1));
            }
        }
        return true;
    }
};

} // namespace sim
