// Deterministic PRNG for the simulator. One integer (VERIF_SEED) decides everything:
// run_seed = mix(VERIF_SEED, property, run_index); inside a run independent named streams
// are derived so that adding a draw in one component never shifts another.
#pragma once
#include <cstdint>
#include <cstddef>
#include <string>
#include <vector>
#include <algorithm>

namespace sim {

inline uint64_t splitmix64(uint64_t& s) {
    uint64_t z = (s += 0x9E3779B97F4A7C15ull);
    z = (z ^ (z >> 30)) * 0xBF58476D1CE4E5B9ull;
    z = (z ^ (z >> 27)) * 0x94D049BB133111EBull;
    return z ^ (z >> 31);
}

inline uint64_t mix64(uint64_t a, uint64_t b) {
    uint64_t s = a ^ (b * 0xD6E8FEB86659FD93ull + 0x2545F4914F6CDD1Dull);
    (void)splitmix64(s);
    return splitmix64(s);
}

inline uint64_t fnv1a(const void* p, size_t n, uint64_t h = 0xcbf29ce484222325ull) {
    const unsigned char* c = static_cast<const unsigned char*>(p);
    for (size_t i = 0; i < n; i++) { h ^= c[i]; h *= 0x100000001b3ull; }
    return h;
}
inline uint64_t fnv1a(const std::string& s, uint64_t h = 0xcbf29ce484222325ull) {
    return fnv1a(s.data(), s.size(), h);
}

struct Rng {
    uint64_t s;
    explicit Rng(uint64_t seed = 0) : s(seed) {}
    uint64_t next() { return splitmix64(s); }
    // uniform in [0,n); n==0 -> 0
    uint64_t below(uint64_t n) { return n ? next() % n : 0; }
    // uniform in [lo,hi]
    long range(long lo, long hi) { return lo + (long)below((uint64_t)(hi - lo + 1)); }
    bool chance(double p) { return (next() >> 11) * (1.0 / 9007199254740992.0) < p; }
    // independent stream by name
    Rng derive(const char* name) const { return Rng(mix64(s, fnv1a(std::string(name)))); }
    template <class T> void shuffle(std::vector<T>& v) {
        for (size_t i = v.size(); i > 1; i--) std::swap(v[i - 1], v[below(i)]);
    }
    template <class T> const T& pick(const std::vector<T>& v) { return v[below(v.size())]; }
};

} // namespace sim
