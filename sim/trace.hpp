// Event trace of one simulated run. Logging never draws from a PRNG, never reads a clock and
// never prints a raw pointer (addresses are logged as block id + offset), so trace hashes are
// comparable across processes and ASLR.
#pragma once
#include <string>
#include <vector>
#include <map>
#include <cstdio>
#include <cstdlib>
#include <sys/mman.h>
#include "rng.hpp"

namespace sim {

// set while the harness is inside simulator bookkeeping: its own allocations must not recurse into simheap
inline thread_local int tl_in_sim = 0;
struct SimGuard { SimGuard() { ++tl_in_sim; } ~SimGuard() { --tl_in_sim; } };

struct Trace {
    uint64_t h = 0xcbf29ce484222325ull;
    uint64_t events = 0;
    bool keep = false;
    std::vector<std::string> lines;
    void reset(bool keep_text) { h = 0xcbf29ce484222325ull; events = 0; keep = keep_text; lines.clear(); }
    void ev(const std::string& s) {
        SimGuard g;
        h = fnv1a(s, h); h = fnv1a("\n", 1, h); events++;
        if (keep) lines.push_back(s);
    }
};

inline Trace& trace() { static Trace t; return t; }

// Reach probes / fault counters: "this rare condition was hit". Counted per process, summed by the driver.
inline std::map<std::string, uint64_t>& probes() { static std::map<std::string, uint64_t> m; return m; }
inline void probe(const std::string& name, uint64_t n = 1) { SimGuard g; probes()[name] += n; }

// A violation found by an invariant or oracle. First one wins; the run stops at the next step boundary.
struct Verdict {
    std::string vclass;   // e.g. CONTENT, LEAK, FOREIGN_WRITE ; empty = held
    std::string detail;   // human readable, deterministic
    std::string key;      // coarse finding key used for known-findings matching (engine defined)
    bool failed() const { return !vclass.empty(); }
    void clear() { vclass.clear(); detail.clear(); key.clear(); }
};

inline Verdict& verdict() { static Verdict v; return v; }

// Crash note: a page shared with forked children. The engine records "where it is" (target and operation) before entering
// the system under test, so that a run that dies still yields a specific finding key.
inline char* crash_note_page() {
    static char* page = [] {
        void* p = mmap(nullptr, 4096, PROT_READ | PROT_WRITE, MAP_SHARED | MAP_ANONYMOUS, -1, 0);
        if (p == MAP_FAILED) { perror("mmap"); std::abort(); }
        return static_cast<char*>(p);
    }();
    return page;
}

inline void crash_note(const std::string& s) {
    char* p = crash_note_page();
    size_t n = s.size() < 250 ? s.size() : 250;
    for (size_t i = 0; i < n; i++) p[i] = s[i];
    p[n] = 0;
}

inline void fail(const std::string& vclass, const std::string& detail, const std::string& key = "") {
    SimGuard g;
    Verdict& v = verdict();
    if (v.failed()) return;
    v.vclass = vclass; v.detail = detail; v.key = key;
    trace().ev("VIOLATION " + vclass + " " + detail);
}

} // namespace sim
