// HIP runtime shim over simdev; found first on the include path as "hip/hip_runtime.h" (what eval/hip/context.hpp includes).
#pragma once
#include <cstddef>
#include <string>
#include "../../simdev.hpp"

#define __global__
#define __device__
#define __host__

enum hipError_t { hipSuccess = 0, hipErrorInvalidValue = 1, hipErrorOutOfMemory = 2, hipErrorInvalidDevicePointer = 17, hipErrorInvalidMemcpyDirection = 21 };
enum hipMemcpyKind { hipMemcpyHostToHost = 0, hipMemcpyHostToDevice = 1, hipMemcpyDeviceToHost = 2, hipMemcpyDeviceToDevice = 3 };

#define threadIdx (::simdev::g_thread)
#define blockIdx  (::simdev::g_block)
#define blockDim  (::simdev::g_blockdim)
#define gridDim   (::simdev::g_griddim)

inline hipError_t hipMalloc(void** p, size_t n) { *p = ::simdev::device().dmalloc(n); return hipSuccess; }
inline hipError_t hipFree(void* p) { return ::simdev::device().dfree(p) ? hipSuccess : hipErrorInvalidDevicePointer; }
inline hipError_t hipMemcpy(void* dst, const void* src, size_t n, hipMemcpyKind k) {
    bool dd = k == hipMemcpyHostToDevice || k == hipMemcpyDeviceToDevice, sd = k == hipMemcpyDeviceToHost || k == hipMemcpyDeviceToDevice;
    return ::simdev::device().copy(dst, src, n, dd, sd, "hipMemcpy") ? hipSuccess : hipErrorInvalidValue;
}
inline hipError_t hipDeviceSynchronize() { ::simdev::device().sync("hipDeviceSynchronize"); return hipSuccess; }
inline hipError_t hipGetLastError() { return hipSuccess; }
inline const char* hipGetErrorString(hipError_t e) { return e == hipSuccess ? "no error" : "simulated HIP error"; }

#define NMTOOLS_VERIF_SIM_LAUNCH(kernel, grid, block) ::simdev::make([](auto... a) { kernel(a...); }, (grid), (block), #kernel)
#define NMTOOLS_VERIF_WARP_SIZE(w) ::simdev::warp_size(w)
