// CUDA runtime shim over simdev. Force-included (-include) before nmtools' eval/cuda/context.hpp, which includes no
// runtime header itself. Everything above this boundary (context_t, evaluator, kernel entry nm_cuda_run_function,
// kernel_helper, functional::apply) is the real nmtools code. The shim validates what a real runtime would:
// copy kind vs. pointer provenance, copy size vs. allocation size, launch configuration limits.
#pragma once
#include <cstddef>
#include <string>
#include "../simdev.hpp"

#define __global__
#define __device__
#define __host__

enum cudaError { cudaSuccess = 0, cudaErrorInvalidValue = 1, cudaErrorMemoryAllocation = 2, cudaErrorInvalidDevicePointer = 17, cudaErrorInvalidMemcpyDirection = 21 };
using cudaError_t = cudaError;
enum cudaMemcpyKind { cudaMemcpyHostToHost = 0, cudaMemcpyHostToDevice = 1, cudaMemcpyDeviceToHost = 2, cudaMemcpyDeviceToDevice = 3 };

#define threadIdx (::simdev::g_thread)
#define blockIdx  (::simdev::g_block)
#define blockDim  (::simdev::g_blockdim)
#define gridDim   (::simdev::g_griddim)

inline cudaError cudaMalloc(void** p, size_t n) { *p = ::simdev::device().dmalloc(n); return cudaSuccess; }
inline cudaError cudaFree(void* p) { return ::simdev::device().dfree(p) ? cudaSuccess : cudaErrorInvalidDevicePointer; }
inline cudaError cudaMemcpy(void* dst, const void* src, size_t n, cudaMemcpyKind k) {
    bool dd = k == cudaMemcpyHostToDevice || k == cudaMemcpyDeviceToDevice, sd = k == cudaMemcpyDeviceToHost || k == cudaMemcpyDeviceToDevice;
    return ::simdev::device().copy(dst, src, n, dd, sd, "cudaMemcpy") ? cudaSuccess : cudaErrorInvalidValue;
}
inline cudaError cudaDeviceSynchronize() { ::simdev::device().sync("cudaDeviceSynchronize"); return cudaSuccess; }
inline cudaError cudaGetLastError() { return cudaSuccess; }
inline const char* cudaGetErrorString(cudaError e) { return e == cudaSuccess ? "no error" : "simulated CUDA error"; }

// hook H1 (launch seam) and H2 (geometry knob), see MANIFEST.hooks
#define NMTOOLS_VERIF_SIM_LAUNCH(kernel, grid, block) ::simdev::make([](auto... a) { kernel(a...); }, (grid), (block), #kernel)
#define NMTOOLS_VERIF_WARP_SIZE(w) ::simdev::warp_size(w)
