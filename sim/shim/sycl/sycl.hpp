// SYCL runtime shim over simdev; found first on the include path as <sycl/sycl.hpp>. nmtools' eval/sycl/context.hpp is
// compiled UNMODIFIED (apart from the H2 geometry knob) against it. Buffers live in the simulated device arena; a kernel
// submitted to a queue is only enqueued and runs when the runtime has to make its effects visible (host_accessor
// construction, queue::wait) or immediately, per run; buffer(ptr,n) copies at construction or lazily at first device use.
#pragma once
#include <cstddef>
#include <memory>
#include <string>
#include <vector>
#include <functional>
#include "../../simdev.hpp"

#define NMTOOLS_VERIF_WARP_SIZE(w) ::simdev::warp_size(w)

namespace sycl {

struct read_only_t {}; struct write_only_t {}; struct read_write_t {};
inline constexpr read_only_t read_only{}; inline constexpr write_only_t write_only{}; inline constexpr read_write_t read_write{};

template <int N = 1> struct range { size_t v[N] = {}; range() {} range(size_t a) { v[0] = a; } size_t operator[](int i) const { return v[i]; } size_t size() const { size_t p = 1; for (auto x : v) p *= x; return p; } };
template <int N = 1> struct id { size_t v[N] = {}; id() {} id(size_t a) { v[0] = a; } size_t operator[](int i) const { return v[i]; } operator size_t() const { return v[0]; } };
template <int N = 1> struct nd_range {
    range<N> global, local;
    nd_range(range<N> g, range<N> l) : global(g), local(l) {}
    range<N> get_global_range() const { return global; } range<N> get_local_range() const { return local; }
    range<N> get_group_range() const { range<N> r; for (int i = 0; i < N; i++) r.v[i] = local.v[i] ? global.v[i] / local.v[i] : 0; return r; }
};
template <int N = 1> struct nd_item { size_t gid = 0, lid = 0, grp = 0; size_t get_global_id(int = 0) const { return gid; } size_t get_local_id(int = 0) const { return lid; } size_t get_group(int = 0) const { return grp; } size_t get_global_linear_id() const { return gid; } };

class handler;

namespace detail {
    struct buffer_state {
        void* dev = nullptr; size_t bytes = 0; const void* host_src = nullptr; bool copied = true;
        ~buffer_state() { if (dev) ::simdev::device().dfree(dev); }
        void ensure_device_copy() {   // lazy host->device copy at first device use (legal: the host range must stay valid for the buffer's lifetime)
            if (!copied) { ::simdev::device().copy(dev, host_src, bytes, true, false, "sycl::buffer lazy copy"); copied = true; ::sim::probe("dev.lazy_h2d"); }
        }
    };
}

template <typename T> class buffer {
public:
    std::shared_ptr<detail::buffer_state> st;
    size_t n = 0;
    buffer(const T* host, size_t count) : st(std::make_shared<detail::buffer_state>()), n(count) {
        st->bytes = count * sizeof(T); st->dev = ::simdev::device().dmalloc(st->bytes); st->host_src = host;
        if (::simdev::device().cfg.lazy_h2d) { st->copied = false; ::simdev::device().mark_initialised(st->dev); }
        else ::simdev::device().copy(st->dev, host, st->bytes, true, false, "sycl::buffer(ptr,n)");
    }
    explicit buffer(size_t count) : st(std::make_shared<detail::buffer_state>()), n(count) { st->bytes = count * sizeof(T); st->dev = ::simdev::device().dmalloc(st->bytes); }
    size_t size() const { return n; }
};

template <typename T> struct device_ptr { T* p; T* get() const { return p; } };

template <typename T, int Dims = 1, int Mode = 0> class accessor {
public:
    T* p = nullptr; size_t n = 0; std::shared_ptr<detail::buffer_state> keep;
    accessor() {}
    template <class Tag> accessor(buffer<T>& b, handler&, Tag) : p(static_cast<T*>(b.st->dev)), n(b.n), keep(b.st) { b.st->ensure_device_copy(); }
    device_ptr<T> get_pointer() const { return device_ptr<T>{p}; }
    T& operator[](size_t i) const { return p[i]; }
    size_t size() const { return n; }
};
template <typename T> accessor(buffer<T>&, handler&, read_only_t) -> accessor<T, 1, 1>;
template <typename T> accessor(buffer<T>&, handler&, write_only_t) -> accessor<T, 1, 2>;
template <typename T> accessor(buffer<T>&, handler&, read_write_t) -> accessor<T, 1, 0>;

template <typename T> class host_accessor {
public:
    std::vector<T> host;
    explicit host_accessor(buffer<T>& b) : host(b.n) {
        ::simdev::device().sync("sycl::host_accessor");   // the runtime must complete kernels that write the buffer first
        b.st->ensure_device_copy();
        if (b.n) ::simdev::device().copy(host.data(), b.st->dev, b.n * sizeof(T), false, true, "sycl::host_accessor");
    }
    size_t size() const { return host.size(); }
    T& operator[](size_t i) { return host[i]; }
    const T& operator[](size_t i) const { return host[i]; }
};
template <typename T> host_accessor(buffer<T>&) -> host_accessor<T>;

class handler {
public:
    ::simdev::Launch launch; bool has = false;
    template <typename K> void parallel_for(nd_range<1> r, K kernel) {
        size_t g = r.global[0], l = r.local[0];
        launch.block = (unsigned)l; launch.grid = l ? (unsigned)(g / l) : 0; launch.what = "sycl::parallel_for"; launch.sycl_global = true;
        if (l == 0 || g % l != 0) { ::sim::fail("SHIM_LAUNCH_CONFIG", "nd_range global size " + std::to_string(g) + " is not a multiple of the local size " + std::to_string(l), "SHIM_LAUNCH_CONFIG"); return; }
        launch.body = [kernel]() {
            nd_item<1> it; it.lid = ::simdev::g_thread.x; it.grp = ::simdev::g_block.x; it.gid = (size_t)::simdev::g_block.x * ::simdev::g_blockdim.x + ::simdev::g_thread.x;
            kernel(it);
        };
        has = true;
    }
};

namespace info {
    enum class device_type { cpu, gpu, accelerator, custom, automatic, host, all };
    enum class local_mem_type { none, local, global };
    enum class global_mem_cache_type { none, read_only, read_write };
    enum class fp_config { denorm, inf_nan, round_to_nearest, round_to_zero, round_to_inf, fma, correctly_rounded_divide_sqrt, soft_float };
    enum class execution_capability { exec_kernel, exec_native_kernel };
    enum class partition_property { no_partition, partition_equally, partition_by_counts, partition_by_affinity_domain };
    enum class partition_affinity_domain { not_applicable, numa, L4_cache, L3_cache, L2_cache, L1_cache, next_partitionable };
    namespace platform { struct name {}; struct vendor {}; struct version {}; struct profile {}; struct extensions {}; }
    namespace device {
        struct name {}; struct vendor {}; struct driver_version {}; struct profile {}; struct version {}; struct opencl_c_version {}; struct extensions {}; struct device_type {};
        struct vendor_id {}; struct max_compute_units {}; struct max_work_item_dimensions {}; template <int> struct max_work_item_sizes {}; struct max_work_group_size {};
        struct preferred_vector_width_char {}; struct preferred_vector_width_short {}; struct preferred_vector_width_int {}; struct preferred_vector_width_long {};
        struct preferred_vector_width_float {}; struct preferred_vector_width_double {}; struct preferred_vector_width_half {};
        struct native_vector_width_char {}; struct native_vector_width_short {}; struct native_vector_width_int {}; struct native_vector_width_long {};
        struct native_vector_width_float {}; struct native_vector_width_double {}; struct native_vector_width_half {};
        struct max_clock_frequency {}; struct address_bits {}; struct max_mem_alloc_size {}; struct image_support {}; struct max_read_image_args {}; struct max_write_image_args {};
        struct image2d_max_height {}; struct image2d_max_width {}; struct image3d_max_height {}; struct image3d_max_width {}; struct image3d_max_depth {};
        struct image_max_buffer_size {}; struct image_max_array_size {}; struct max_samplers {}; struct max_parameter_size {}; struct mem_base_addr_align {};
        struct half_fp_config {}; struct single_fp_config {}; struct double_fp_config {}; struct global_mem_cache_type {}; struct global_mem_cache_line_size {};
        struct global_mem_cache_size {}; struct global_mem_size {}; struct max_constant_buffer_size {}; struct max_constant_args {}; struct local_mem_type {};
        struct local_mem_size {}; struct error_correction_support {}; struct host_unified_memory {}; struct profiling_timer_resolution {}; struct is_endian_little {};
        struct is_available {}; struct is_compiler_available {}; struct is_linker_available {}; struct execution_capabilities {}; struct queue_profiling {};
        struct built_in_kernels {}; struct printf_buffer_size {}; struct preferred_interop_user_sync {}; struct partition_max_sub_devices {}; struct partition_properties {};
        struct partition_affinity_domains {}; struct partition_type_property {}; struct partition_type_affinity_domain {}; struct reference_count {};
    }
}

class platform { public: template <typename P> std::string get_info() const { return "simdev"; } };
class device {
public:
    static std::vector<device> get_devices() { return {device()}; }
    platform get_platform() const { return platform(); }
    template <typename P> std::string get_info() const { return "simdev"; }
};

class queue {
public:
    queue() {}
    explicit queue(const device&) {}
    template <typename F> void submit(F cgf) {
        handler h; cgf(h);
        if (h.has) ::simdev::device().enqueue(std::move(h.launch));
    }
    void wait() { ::simdev::device().sync("sycl::queue::wait"); }
};

} // namespace sycl
