// simheap - the simulated allocator. Adversarial but legal: seeded address-reuse policy, poisoned
// fresh and freed memory, either legal flavour of malloc(0), red zones, and bookkeeping that turns
// leak / double free / invalid free / out-of-bounds write / write-after-free into deterministic,
// seed-replayable events. Allocation failure is deliberately not injected (DESIGN.md 3.4).
#pragma once
#include <cstdint>
#include <cstddef>
#include <cstring>
#include <cstdlib>
#include <string>
#include <vector>
#include <sys/mman.h>
#include "rng.hpp"
#include "trace.hpp"

#if defined(__SANITIZE_ADDRESS__)
#include <sanitizer/asan_interface.h>
#define SIM_ASAN_POISON(p, n) ASAN_POISON_MEMORY_REGION((p), (n))
#define SIM_ASAN_UNPOISON(p, n) ASAN_UNPOISON_MEMORY_REGION((p), (n))
#define SIM_NO_ASAN __attribute__((no_sanitize("address")))
#else
#define SIM_ASAN_POISON(p, n) ((void)0)
#define SIM_ASAN_UNPOISON(p, n) ((void)0)
#define SIM_NO_ASAN
#endif

namespace sim {

struct HeapCfg {
    int reuse = 0;            // 0 LIFO, 1 FIFO, 2 random, 3 never
    bool malloc0_null = false;
    uint64_t poison_seed = 1;
    int fill = 0;             // 0 seeded non-zero bytes, 1 all 0xFF (float NaN / int -1), 2 0xCB
    static const char* reuse_name(int r) { static const char* n[] = {"lifo", "fifo", "random", "never"}; return n[r & 3]; }
};

class SimHeap {
public:
    static constexpr size_t RZ = 32;       // red zone on each side
    static constexpr size_t ALIGN = 16;
    struct Block {
        size_t off = 0;    // payload offset in arena
        size_t capb = 0;   // payload capacity (multiple of ALIGN, >= 16)
        size_t req = 0;    // requested size of the current/last allocation
        bool live = false;
        uint32_t gen = 0;  // times handed out
        std::string origin; // harness-supplied tag of the step that allocated it
    };

    explicit SimHeap(const char* name, size_t arena_bytes = (8u << 20)) : name_(name), cap_(arena_bytes) {
        void* p = mmap(nullptr, cap_, PROT_READ | PROT_WRITE, MAP_PRIVATE | MAP_ANONYMOUS, -1, 0);
        if (p == MAP_FAILED) { std::perror("simheap mmap"); std::abort(); }
        base_ = static_cast<unsigned char*>(p);
    }

    void reset(const HeapCfg& cfg) {
        SimGuard g;
        SIM_ASAN_UNPOISON(base_, bump_ ? bump_ : 1);
        cfg_ = cfg; rng_ = Rng(mix64(cfg.poison_seed, 0x6865617021ull));
        blocks_.clear(); freelist_.clear(); bump_ = 0; origin_.clear();
        n_malloc_ = n_free_ = n_reuse_ = n_zero_ = 0; errors_.clear();
    }

    void set_origin(const std::string& o) { SimGuard g; origin_ = o; }

    bool owns(const void* p) const {
        auto c = static_cast<const unsigned char*>(p);
        return c >= base_ && c < base_ + cap_;
    }

    SIM_NO_ASAN void* malloc(size_t n) {
        SimGuard g;
        n_malloc_++;
        if (n == 0) {
            n_zero_++;
            if (cfg_.malloc0_null) { trace().ev(std::string(name_) + " malloc(0)->null"); probe("heap.malloc0_null"); return nullptr; }
            probe("heap.malloc0_unique");
        }
        int id = pick_free(n);
        if (id < 0) {
            size_t capb = (n + ALIGN - 1) / ALIGN * ALIGN; if (capb == 0) capb = ALIGN;
            size_t need = RZ + capb + RZ;
            if (bump_ + need > cap_) { std::fprintf(stderr, "simheap %s: arena exhausted\n", name_); std::abort(); }
            Block b; b.off = bump_ + RZ; b.capb = capb;
            bump_ += need;
            blocks_.push_back(b); id = (int)blocks_.size() - 1;
        } else {
            n_reuse_++; probe(std::string("heap.reuse_hit.") + HeapCfg::reuse_name(cfg_.reuse));
            verify_free_block(id);   // write-after-free detection
        }
        Block& b = blocks_[id];
        b.live = true; b.req = n; b.gen++; b.origin = origin_;
        unsigned char* p = base_ + b.off;
        SIM_ASAN_UNPOISON(p - RZ, RZ + b.capb + RZ);
        fill_canary(p - RZ, RZ);
        fill_fresh(p, n, id, b.gen);
        fill_canary(p + n, b.capb - n + RZ);
        SIM_ASAN_POISON(p - RZ, RZ);
        SIM_ASAN_POISON(p + n, b.capb - n + RZ);
        trace().ev(std::string(name_) + " malloc(" + std::to_string(n) + ")->b" + std::to_string(id));
        return p;
    }

    SIM_NO_ASAN void free(void* vp) {
        SimGuard g;
        if (!vp) { trace().ev(std::string(name_) + " free(null)"); return; }
        n_free_++;
        int id = find(vp);
        if (id < 0) {
            error("HEAP_INVALID_FREE", "free of a pointer the heap never issued (" + describe(vp) + ")");
            return;
        }
        Block& b = blocks_[id];
        if (!b.live) { error("HEAP_DOUBLE_FREE", "b" + std::to_string(id) + " freed twice (allocated by " + b.origin + ")"); return; }
        verify_live_block(id);
        b.live = false;
        unsigned char* p = base_ + b.off;
        SIM_ASAN_UNPOISON(p, b.capb);
        fill_freed(p, b.capb, id);
        SIM_ASAN_POISON(p, b.capb);
        if (cfg_.reuse != 3) freelist_.push_back(id);
        trace().ev(std::string(name_) + " free(b" + std::to_string(id) + ")");
    }

    void* calloc(size_t a, size_t b) {
        void* p = this->malloc(a * b);
        if (p) std::memset(p, 0, a * b);
        return p;
    }

    void* realloc(void* p, size_t n) {   // always moves: legal and maximally hostile
        if (!p) return this->malloc(n);
        int id = find(p);
        if (id < 0 || !blocks_[id].live) { error("HEAP_INVALID_REALLOC", "realloc of a pointer that is not a live block (" + describe(p) + ")"); return nullptr; }
        size_t old = blocks_[id].req;
        void* q = this->malloc(n);
        if (q) std::memcpy(q, p, old < n ? old : n);
        this->free(p);
        return q;
    }

    // verify all red zones and freed-block poison. Called by the harness after every step.
    SIM_NO_ASAN void check_integrity() {
        SimGuard g;
        for (int id = 0; id < (int)blocks_.size(); id++) {
            if (blocks_[id].live) verify_live_block(id); else verify_free_block(id);
        }
    }

    // ASan builds: lift / re-establish the manual poisoning of red zones and freed blocks (the simulator's own snapshots
    // read whole blocks; the system under test must still trip over them)
    void asan_unpoison_all() { SIM_ASAN_UNPOISON(base_, bump_ ? bump_ : 1); }
    void asan_repoison_all() {
#if defined(__SANITIZE_ADDRESS__)
        for (auto& b : blocks_) {
            unsigned char* p = base_ + b.off;
            SIM_ASAN_POISON(p - RZ, RZ);
            if (b.live) SIM_ASAN_POISON(p + b.req, b.capb - b.req + RZ); else SIM_ASAN_POISON(p, b.capb + RZ);
        }
#endif
    }

    size_t live_count() const { size_t n = 0; for (auto& b : blocks_) n += b.live; return n; }
    std::string live_summary() const {
        std::string s;
        for (size_t i = 0; i < blocks_.size(); i++) if (blocks_[i].live) {
            if (!s.empty()) s += "; ";
            s += "b" + std::to_string(i) + "[" + std::to_string(blocks_[i].req) + "B from " + blocks_[i].origin + "]";
        }
        return s;
    }
    const std::vector<Block>& blocks() const { return blocks_; }
    unsigned char* base() const { return base_; }
    size_t used() const { return bump_; }
    // id of the live block containing p (payload only), else -1
    int block_of(const void* vp) const {
        auto c = static_cast<const unsigned char*>(vp);
        if (!owns(vp)) return -1;
        size_t off = (size_t)(c - base_);
        for (int i = 0; i < (int)blocks_.size(); i++)
            if (off >= blocks_[i].off && off < blocks_[i].off + (blocks_[i].req ? blocks_[i].req : 1)) return i;
        return -1;
    }
    // position of p as "b<id>+<off>" for traces
    std::string describe(const void* vp) const {
        auto c = static_cast<const unsigned char*>(vp);
        if (!owns(vp)) return "foreign";
        size_t off = (size_t)(c - base_);
        for (int i = 0; i < (int)blocks_.size(); i++)
            if (off + RZ >= blocks_[i].off && off < blocks_[i].off + blocks_[i].capb + RZ)
                return "b" + std::to_string(i) + (off >= blocks_[i].off ? "+" + std::to_string(off - blocks_[i].off) : "-" + std::to_string(blocks_[i].off - off));
        return "arena+" + std::to_string(off);
    }
    uint64_t n_malloc() const { return n_malloc_; }
    uint64_t n_free() const { return n_free_; }
    uint64_t n_reuse() const { return n_reuse_; }

    // errors recorded while inside the system under test; the harness turns the first into a violation
    const std::vector<std::pair<std::string, std::string>>& errors() const { return errors_; }
    void flush_errors_to_verdict() {
        if (!errors_.empty()) fail(errors_[0].first, errors_[0].second, errors_[0].first);
    }

private:
    const char* name_;
    unsigned char* base_ = nullptr;
    size_t cap_ = 0, bump_ = 0;
    HeapCfg cfg_;
    Rng rng_{0};
    std::vector<Block> blocks_;
    std::vector<int> freelist_;
    std::string origin_;
    uint64_t n_malloc_ = 0, n_free_ = 0, n_reuse_ = 0, n_zero_ = 0;
    std::vector<std::pair<std::string, std::string>> errors_;

    void error(const std::string& c, const std::string& d) {
        errors_.emplace_back(c, d);
        trace().ev(std::string(name_) + " ERROR " + c + " " + d);
    }
    int find(const void* vp) const {
        auto c = static_cast<const unsigned char*>(vp);
        if (!owns(vp)) return -1;
        size_t off = (size_t)(c - base_);
        for (int i = 0; i < (int)blocks_.size(); i++) if (blocks_[i].off == off) return i;
        return -1;
    }
    int pick_free(size_t n) {
        if (cfg_.reuse == 3 || freelist_.empty()) return -1;
        std::vector<size_t> fit;
        for (size_t k = 0; k < freelist_.size(); k++) {
            const Block& b = blocks_[freelist_[k]];
            if (b.capb >= (n ? n : 1) && b.capb <= (n < 64 ? 256 : 4 * n)) fit.push_back(k);
        }
        if (fit.empty()) return -1;
        size_t k = cfg_.reuse == 0 ? fit.back() : cfg_.reuse == 1 ? fit.front() : fit[rng_.below(fit.size())];
        int id = freelist_[k];
        freelist_.erase(freelist_.begin() + (long)k);
        return id;
    }
    static unsigned char canary(size_t i) { return (unsigned char)(0xA5 ^ (i * 7 & 0x0f)); }
    SIM_NO_ASAN static void fill_canary(unsigned char* p, size_t n) { for (size_t i = 0; i < n; i++) p[i] = canary(i); }
    SIM_NO_ASAN void fill_fresh(unsigned char* p, size_t n, int id, uint32_t gen) {
        if (cfg_.fill == 1) { for (size_t i = 0; i < n; i++) p[i] = 0xFF; return; }
        if (cfg_.fill == 2) { for (size_t i = 0; i < n; i++) p[i] = 0xCB; return; }
        uint64_t s = mix64(cfg_.poison_seed, ((uint64_t)id << 32) | gen);
        for (size_t i = 0; i < n; i++) { unsigned char c = (unsigned char)(splitmix64(s) >> 24); p[i] = c ? c : 0x5A; }
    }
    static unsigned char freed_byte(int id, size_t i) { return (unsigned char)(0xDD ^ ((id * 3 + i) & 0x03)); }
    SIM_NO_ASAN static void fill_freed(unsigned char* p, size_t n, int id) { for (size_t i = 0; i < n; i++) p[i] = freed_byte(id, i); }

    SIM_NO_ASAN void verify_live_block(int id) {
        const Block& b = blocks_[id];
        const unsigned char* p = base_ + b.off;
        for (size_t i = 0; i < RZ; i++) if (p[(long)i - (long)RZ] != canary(i)) {
            error("HEAP_REDZONE", "write before b" + std::to_string(id) + " at -" + std::to_string(RZ - i) + " (allocated by " + b.origin + ")");
            fill_canary(const_cast<unsigned char*>(p) - RZ, RZ); break;
        }
        size_t tail = b.capb - b.req + RZ;
        for (size_t i = 0; i < tail; i++) if (p[b.req + i] != canary(i)) {
            error("HEAP_REDZONE", "write past the end of b" + std::to_string(id) + " (" + std::to_string(b.req) + " bytes) at +" + std::to_string(b.req + i) + " (allocated by " + b.origin + ")");
            fill_canary(const_cast<unsigned char*>(p) + b.req, tail); break;
        }
    }
    SIM_NO_ASAN void verify_free_block(int id) {
        const Block& b = blocks_[id];
        if (b.gen == 0) return;
        const unsigned char* p = base_ + b.off;
        for (size_t i = 0; i < b.capb; i++) if (p[i] != freed_byte(id, i)) {
            error("HEAP_WRITE_AFTER_FREE", "freed b" + std::to_string(id) + " modified at +" + std::to_string(i) + " (last allocated by " + b.origin + ")");
            fill_freed(const_cast<unsigned char*>(p), b.capb, id); break;
        }
    }
};

} // namespace sim
