// simdev - the simulated SIMT device behind the CUDA / HIP / SYCL shims (DESIGN.md 3.5).
// Device memory is a simheap arena distinct from host memory (poisoned, red-zoned, optionally fenced with mprotect
// while no device operation is in progress). A kernel launch only enqueues; pending kernels run at the points where the
// real runtimes guarantee completion (or immediately, per run). Threads of a launch run one at a time, to completion,
// in a seeded order, possibly duplicated, possibly isolated from each other's writes; every thread's write-set is
// attributed by diffing device memory, which decides the per-thread invariants of C13:
//   OUT_OF_RANGE_WRITE  a thread whose global id >= output size changed something
//   FOREIGN_WRITE       a thread with id i < size changed a byte outside output element i (operand, shape buffer, other element)
//   NON_IDEMPOTENT      executing a thread twice did not leave the same bytes
//   NOT_COVERED         an output element below size was never written
#pragma once
#include <cstdint>
#include <cstring>
#include <functional>
#include <vector>
#include <string>
#include <deque>
#include <algorithm>
#include <stdexcept>
#include "rng.hpp"
#include "trace.hpp"
#include "simheap.hpp"

namespace simdev {
using namespace sim;

struct Dim { unsigned x = 0, y = 0, z = 0; };
// what the kernel body reads (threadIdx / blockIdx / blockDim of the shims alias these)
inline thread_local Dim g_thread, g_block, g_blockdim, g_griddim;
inline std::string& key_prefix() { static std::string k; return k; }   // "<pipeline>:<backend>:" set by the harness

struct Config {
    int order = 0;            // 0 ascending, 1 descending, 2 block round-robin, 3 blocks reversed, 4 out-of-range first, 5 random
    uint64_t order_seed = 1;
    unsigned dup_permille = 0; // share of threads executed twice
    bool isolate = false;      // threads do not see each other's writes to never-host-initialised memory
    bool defer = true;         // kernels run at the next synchronising call instead of at launch
    bool lazy_h2d = false;     // SYCL buffer(ptr,n): copy at first device use instead of at construction
    bool fence = true;         // device memory inaccessible to the host outside device operations
    int warp = 32;             // H2 knob: block size the host code uses in context mode
    bool geometry_only = false; // validate the launch geometry against the expected output size without executing threads (huge outputs)
    static const char* order_name(int o) { static const char* n[] = {"ascending", "descending", "block_round_robin", "blocks_reversed", "out_of_range_first", "random"}; return n[o % 6]; }
};

struct Stats { uint64_t schedule_hash = 0; uint64_t launches = 0, threads = 0, in_range_threads = 0, dup_threads = 0, h2d = 0, d2h = 0, mallocs = 0, frees = 0, deferred_runs = 0; };

struct Launch {
    std::function<void()> body;   // runs ONE thread with the ids currently in g_thread/g_block/...
    unsigned grid = 1, block = 1;
    bool sycl_global = false;     // SYCL: the kernel reads only the global id
    std::string what;
};

class Device {
public:
    static constexpr size_t ARENA = (size_t)1 << 29;   // virtual; only touched pages are committed (the geometry probe needs 2^24+1 elements)
    Device() : heap_("dev", ARENA) {}
    SimHeap& heap() { return heap_; }
    Config cfg;
    Stats stats;

    // expectation supplied by the harness before an evaluation: output element count and element size
    size_t expect_n = 0, expect_elem = 0;
    bool kernel_ran = false;

    void reset(const Config& c, const HeapCfg& h) {
        access_begin();
        cfg = c; heap_.reset(h); stats = Stats(); pending_.clear(); init_.clear(); expect_n = expect_elem = 0; kernel_ran = false; uncovered.clear(); prelaunch_out.clear();
        access_end();
    }

    // ---- fencing: host code must not touch device memory directly -------------------------------------------------
    void access_begin() { if (depth_++ == 0 && fenced_) { mprotect(heap_.base(), arena_bytes(), PROT_READ | PROT_WRITE); fenced_ = false; } }
    void access_end() { if (--depth_ == 0 && cfg.fence && !fenced_) { mprotect(heap_.base(), arena_bytes(), PROT_NONE); fenced_ = true; } }
    struct Access { Device& d; explicit Access(Device& d_) : d(d_) { d.access_begin(); } ~Access() { d.access_end(); } };

    // ---- memory API used by the runtime shims ----------------------------------------------------------------------
    void* dmalloc(size_t n) {
        Access a(*this); stats.mallocs++;
        void* p = heap_.malloc(n ? n : 1);
        int id = heap_.block_of(p);
        if ((size_t)id >= init_.size()) init_.resize((size_t)id + 1, 0);
        init_[(size_t)id] = 0;
        return p;
    }
    // 0 ok; otherwise an error string is recorded as a violation of the shim-level invariants
    bool dfree(void* p) {
        sync("free");
        Access a(*this); stats.frees++;
        size_t before = heap_.errors().size();
        heap_.free(p);
        if (heap_.errors().size() != before) { report_heap_errors(); return false; }
        return true;
    }
    bool is_device(const void* p) const { return heap_.owns(p); }
    // host<->device copy with provenance and size validation
    bool copy(void* dst, const void* src, size_t n, bool dst_dev, bool src_dev, const char* what) {
        sync(what);   // a blocking copy completes preceding kernels
        Access a(*this);
        if (n == 0 && (!dst || !src)) return true;
        if (is_device(dst) != dst_dev || is_device(src) != src_dev) { fail("SHIM_COPY_KIND", std::string(what) + ": copy direction does not match where the pointers live", key_prefix() + "SHIM_COPY_KIND"); return false; }
        if (dst_dev && !range_ok(dst, n)) { fail("SHIM_COPY_SIZE", std::string(what) + ": " + std::to_string(n) + " bytes do not fit the destination device allocation (" + heap_.describe(dst) + ")", key_prefix() + "SHIM_COPY_SIZE"); return false; }
        if (src_dev && !range_ok(src, n)) { fail("SHIM_COPY_SIZE", std::string(what) + ": " + std::to_string(n) + " bytes exceed the source device allocation (" + heap_.describe(src) + ")", key_prefix() + "SHIM_COPY_SIZE"); return false; }
        if (n) std::memcpy(dst, src, n);   // a zero-byte copy (rank-0 shape buffer) may legally carry null pointers
        if (dst_dev) { stats.h2d++; int id = heap_.block_of(dst); if (id >= 0) init_[(size_t)id] = 1; trace().ev(std::string("h2d ") + heap_.describe(dst) + " n=" + std::to_string(n)); }
        if (src_dev) { stats.d2h++; trace().ev(std::string("d2h ") + heap_.describe(src) + " n=" + std::to_string(n)); }
        return true;
    }
    void mark_initialised(void* p) { int id = heap_.block_of(p); if (id >= 0) init_[(size_t)id] = 1; }

    // ---- launches ----------------------------------------------------------------------------------------------------
    void enqueue(Launch l) {
        SimGuard g;
        stats.launches++;
        if (l.block == 0 || l.block > 1024 || l.grid == 0) { fail("SHIM_LAUNCH_CONFIG", "launch configuration grid=" + std::to_string(l.grid) + " block=" + std::to_string(l.block) + " is not valid", key_prefix() + "SHIM_LAUNCH_CONFIG"); return; }
        trace().ev("launch " + l.what + " grid=" + std::to_string(l.grid) + " block=" + std::to_string(l.block) + (cfg.defer ? " deferred" : " eager"));
        if (cfg.geometry_only) {
            kernel_ran = true;
            if ((size_t)l.grid * l.block < expect_n)
                fail("LAUNCH_TOO_SMALL", "the launch has " + std::to_string((size_t)l.grid * l.block) + " threads (grid " + std::to_string(l.grid) + " x block " + std::to_string(l.block) + ") for an output of " + std::to_string(expect_n) + " elements", key_prefix() + "LAUNCH_TOO_SMALL");
            probe("dev.geometry_only_launches");
            return;
        }
        pending_.push_back(std::move(l));
        if (!cfg.defer) sync("eager");
    }
    // run everything that is pending (called at synchronising runtime calls)
    void sync(const char* why) {
        if (pending_.empty() || running_) return;
        running_ = true;
        while (!pending_.empty()) {
            Launch l = std::move(pending_.front()); pending_.pop_front();
            if (cfg.defer) { stats.deferred_runs++; probe("dev.deferred_kernel_runs"); }
            trace().ev(std::string("run-kernel at ") + why);
            run(l);
        }
        running_ = false;
    }
    bool has_pending() const { return !pending_.empty(); }

private:
    SimHeap heap_;
    std::deque<Launch> pending_;
    std::vector<char> init_;     // per block: host-initialised (operand / shape buffer) or not (output)
    int depth_ = 0; bool fenced_ = false; bool running_ = false;
    size_t arena_bytes() const { return ARENA; }

    bool range_ok(const void* p, size_t n) const {
        int id = heap_.block_of(p);
        if (id < 0) { // block_of refuses pointers past req; allow n==0 at the end
            return false;
        }
        auto& B = heap_.blocks()[(size_t)id];
        size_t off = (size_t)((const unsigned char*)p - heap_.base()) - B.off;
        return B.live && off + n <= B.req;
    }
    void report_heap_errors() { auto& e = heap_.errors(); if (!e.empty()) fail(e[0].first, "device memory: " + e[0].second, key_prefix() + "DEV_" + e[0].first); }

    struct Img { int id; size_t off, len; std::vector<unsigned char> before; };   // off/len include the red zones

    void run(Launch& l) {
        SimGuard g; Access a(*this);
        heap_.asan_unpoison_all();
        kernel_ran = true;
        const unsigned G = l.grid, B = l.block;
        const size_t total = (size_t)G * B;
        // thread order -----------------------------------------------------------------------------------------------
        std::vector<uint32_t> order(total);
        for (size_t i = 0; i < total; i++) order[i] = (uint32_t)i;
        Rng r(mix64(cfg.order_seed, stats.launches));
        size_t n = expect_n;
        switch (cfg.order % 6) {
            case 0: break;
            case 1: std::reverse(order.begin(), order.end()); break;
            case 2: { size_t k = 0; for (unsigned t = 0; t < B; t++) for (unsigned b = 0; b < G; b++) order[k++] = b * B + t; break; }
            case 3: { size_t k = 0; for (unsigned b = G; b-- > 0;) for (unsigned t = 0; t < B; t++) order[k++] = b * B + t; break; }
            case 4: std::stable_partition(order.begin(), order.end(), [&](uint32_t g) { return g >= n; }); break;
            default: r.shuffle(order); break;
        }
        // duplicated execution of a seeded subset of threads (bias toward in-range threads: they are the ones that write)
        std::vector<uint32_t> sched; sched.reserve(total + total / 8);
        for (uint32_t gid : order) {
            sched.push_back(gid);
            if (cfg.dup_permille && (gid < n || r.below(16) == 0) && r.below(1000) < cfg.dup_permille) sched.push_back(gid | 0x80000000u);
        }
        if (cfg.dup_permille && cfg.order % 6 == 5) { // let some duplicates run far from their first execution
            for (size_t i = 0; i + 1 < sched.size(); i++) if ((sched[i + 1] & 0x80000000u) && r.below(2)) { size_t j = i + 1 + r.below(sched.size() - i - 1); std::swap(sched[i + 1], sched[j]); }
            // a duplicate must not run before its original: restore that
            std::vector<char> seen(total, 0);
            for (auto& s : sched) { uint32_t gid = s & 0x7fffffffu; if (!seen[gid]) { seen[gid] = 1; s = gid; } else s = gid | 0x80000000u; }
        }
        {   // distinctness measure: the executed sequence of (global id, duplicate flag) together with the geometry
            uint64_t h = mix64(G, B);
            h = fnv1a(sched.data(), sched.size() * sizeof(uint32_t), h);
            stats.schedule_hash = mix64(stats.schedule_hash, h);
        }
        // images -------------------------------------------------------------------------------------------------------
        // every live device block with its red zones; the output is the never-host-initialised block of the expected size
        std::vector<Img> imgs; int out_id = -1;
        auto& blocks = heap_.blocks();
        for (int id = 0; id < (int)blocks.size(); id++) {
            if (!blocks[(size_t)id].live) continue;
            Img im; im.id = id; im.off = blocks[(size_t)id].off - SimHeap::RZ; im.len = blocks[(size_t)id].capb + 2 * SimHeap::RZ;
            im.before.assign(heap_.base() + im.off, heap_.base() + im.off + im.len);
            if (!init_[(size_t)id] && expect_n && blocks[(size_t)id].req == expect_n * expect_elem && out_id < 0) out_id = id;
            imgs.push_back(std::move(im));
        }
        Img* out = nullptr; for (auto& im : imgs) if (im.id == out_id) out = &im;
        std::vector<unsigned char> prelaunch, committed; std::vector<char> covered;
        size_t out_payload = 0;
        if (out) { prelaunch = out->before; committed = out->before; covered.assign(expect_n, 0); out_payload = SimHeap::RZ;
                   prelaunch_out.assign(prelaunch.begin() + (long)SimHeap::RZ, prelaunch.begin() + (long)(SimHeap::RZ + expect_n * expect_elem)); }
        else if (expect_n) { fail("NO_OUTPUT_BUFFER", "no uninitialised device allocation of " + std::to_string(expect_n * expect_elem) + " bytes exists at launch time", key_prefix() + "NO_OUTPUT_BUFFER"); return; }

        // run threads ---------------------------------------------------------------------------------------------------
        g_blockdim = Dim{B, 1, 1}; g_griddim = Dim{G, 1, 1};
        for (uint32_t s : sched) {
            if (verdict().failed()) break;
            uint32_t gid = s & 0x7fffffffu; bool dup = (s & 0x80000000u) != 0;
            g_block = Dim{gid / B, 0, 0}; g_thread = Dim{gid % B, 0, 0};
            stats.threads++; if (gid < n) stats.in_range_threads++; if (dup) stats.dup_threads++;
            if (out) { // what this thread can see of the output
                std::memcpy(heap_.base() + out->off, cfg.isolate ? prelaunch.data() : committed.data(), out->len);
                out->before.assign(heap_.base() + out->off, heap_.base() + out->off + out->len);
            }
            {   // the kernel body is the system under test: its own allocations are not simulator bookkeeping
                int saved = tl_in_sim; tl_in_sim = 0;
                heap_.asan_repoison_all();
                try { l.body(); heap_.asan_unpoison_all(); }
                catch (const std::exception& e) { heap_.asan_unpoison_all(); tl_in_sim = saved; fail("KERNEL_EXCEPTION", std::string("kernel body threw in thread gid=") + std::to_string(gid) + ": " + e.what(), key_prefix() + "KERNEL_EXCEPTION"); break; }
                tl_in_sim = saved;
            }
            // attribute writes
            for (auto& im : imgs) {
                unsigned char* cur = heap_.base() + im.off;
                if (std::memcmp(cur, im.before.data(), im.len) == 0) continue;
                for (size_t i = 0; i < im.len; i++) {
                    if (cur[i] == im.before[i]) continue;
                    long poff = (long)i - (long)SimHeap::RZ;   // offset relative to the payload
                    bool own = (&im == out) && gid < n && poff >= (long)(gid * expect_elem) && poff < (long)((gid + 1) * expect_elem);
                    if (own) continue;
                    std::string where = "b" + std::to_string(im.id) + (poff >= 0 ? "+" : "") + std::to_string(poff);
                    std::string who = "thread gid=" + std::to_string(gid) + " (block " + std::to_string(gid / B) + ", thread " + std::to_string(gid % B) + ", blockDim " + std::to_string(B) + ", grid " + std::to_string(G) + ")";
                    if (gid >= n) fail("OUT_OF_RANGE_WRITE", who + " is not below the output size " + std::to_string(n) + " but wrote device memory at " + where, key_prefix() + "OUT_OF_RANGE_WRITE");
                    else if (&im == out) fail("FOREIGN_WRITE", who + " wrote output bytes at " + where + " outside its own element [" + std::to_string(gid * expect_elem) + "," + std::to_string((gid + 1) * expect_elem) + ")", key_prefix() + "FOREIGN_WRITE:output");
                    else fail("FOREIGN_WRITE", who + " modified " + (init_[(size_t)im.id] ? "an operand / shape buffer" : "a foreign allocation") + " at " + where, key_prefix() + "FOREIGN_WRITE:operand");
                    break;
                }
                if (verdict().failed()) break;
                if (&im == out) {
                    // merge the thread's own bytes into the committed image
                    size_t lo = SimHeap::RZ + gid * expect_elem;
                    bool changed_vs_committed = std::memcmp(committed.data() + lo, cur + lo, expect_elem) != 0;
                    if (dup && covered[gid] && changed_vs_committed) {
                        fail("NON_IDEMPOTENT", "second execution of thread gid=" + std::to_string(gid) + " left different bytes in its output element than the first", key_prefix() + "NON_IDEMPOTENT");
                        break;
                    }
                    std::memcpy(committed.data() + lo, cur + lo, expect_elem);
                    covered[gid] = 1;
                } else {
                    im.before.assign(cur, cur + im.len);
                }
            }
        }
        if (out) {
            std::memcpy(heap_.base() + out->off, committed.data(), out->len);
            if (!verdict().failed()) for (size_t i = 0; i < expect_n; i++) if (!covered[i]) {
                // not seen by the byte diff: legitimate only if the thread wrote exactly the bytes that were already there,
                // which the HOST_EQUAL oracle decides; here it is recorded as a miss and resolved by the harness
                uncovered.push_back(i);
            }
        }
        heap_.check_integrity(); report_heap_errors();
        heap_.asan_repoison_all();
        trace().ev("kernel done threads=" + std::to_string(sched.size()));
        (void)out_payload;
    }
public:
    std::vector<size_t> uncovered;            // output elements no thread visibly wrote (resolved against the expected values by the harness)
    std::vector<unsigned char> prelaunch_out;  // payload of the output allocation as it was before the launch (poison)
};

inline Device& device() { static Device d; return d; }

// The launch seam (hook H1): NMTOOLS_VERIF_SIM_LAUNCH(kernel,grid,block)(args...) ==> make(...)(args...)
template <class K>
struct Launcher {
    K kernel; unsigned grid, block; const char* name;
    template <class... Args> void operator()(Args... args) const {   // arguments are copied by value at launch time, as the parameter space does
        K k = kernel;
        Launch l; l.grid = grid; l.block = block; l.what = name;
        l.body = [k, args...]() { k(args...); };
        device().enqueue(std::move(l));
    }
};
template <class K> Launcher<K> make(K k, size_t grid, size_t block, const char* name) { return Launcher<K>{k, (unsigned)grid, (unsigned)block, name}; }

inline int warp_size(int dflt) { (void)dflt; return device().cfg.warp; }

} // namespace simdev
