#!/bin/bash
# Mutation regression: apply every seeded defect to /repo (one at a time), run the quick tier of its property at a reduced
# scale, expect a VIOLATION (exit 1), revert. /repo must be clean. Usage: ./selftest_seeded.sh [id-substring]
cd "$(dirname "$0")"
[ -z "$(git -C /repo status --porcelain --untracked-files=no)" ] || { echo "/repo has local changes"; exit 2; }
fail=0
for d in seeded/*${1}*/; do
  id=$(basename $d); prop=$(python3 -c "import json;print(json.load(open('$d/meta.json'))['property'])")
  if ! git -C /repo apply --check $PWD/$d/patch.diff 2>/dev/null; then
    # context moved because of a later fix: try with reduced context
    if ! git -C /repo apply --check -C1 $PWD/$d/patch.diff 2>/dev/null; then echo "SEEDED $id [$prop]: patch no longer applies (skipped)"; continue; fi
    git -C /repo apply -C1 $PWD/$d/patch.diff
  else
    git -C /repo apply $PWD/$d/patch.diff
  fi
  out=$(VERIF_SCALE=${SEEDED_SCALE:-0.05} ./check $prop quick 2>&1); rc=$?
  first=$(echo "$out" | grep -A1 "^VIOLATION" | grep "class=" | head -1 | cut -c1-140)
  echo "SEEDED $id [$prop]: exit=$rc $first"
  [ $rc -eq 1 ] || fail=1
  git -C /repo checkout -- .
done
exit $fail
