// C13 harness: evaluates a view through the REAL CUDA / HIP / SYCL context code on the simulated device and compares with
// host evaluation of the same view. Per-thread invariants are decided inside simdev (write-set attribution).
#pragma once
#include <vector>
#include <string>
#include <memory>
#include <cstring>
#include <functional>
#include <type_traits>
#include "../../sim/rng.hpp"
#include "../../sim/plan.hpp"
#include "../../sim/trace.hpp"
#include "../../sim/simdev.hpp"
#include "case.hpp"

#include "nmtools/array/ndarray.hpp"
#include "nmtools/array/eval.hpp"
#include "nmtools/array/functional.hpp"
#include "nmtools/utility/shape.hpp"
#include "nmtools/utility/data.hpp"

#if defined(C13_BACKEND_CUDA)
#include "nmtools/array/eval/cuda.hpp"
#define C13_BACKEND_NAME "cuda"
#elif defined(C13_BACKEND_HIP)
#include "nmtools/array/eval/hip.hpp"
#define C13_BACKEND_NAME "hip"
#elif defined(C13_BACKEND_SYCL)
#include "nmtools/array/eval/sycl.hpp"
#define C13_BACKEND_NAME "sycl"
#else
#error "define C13_BACKEND_CUDA / C13_BACKEND_HIP / C13_BACKEND_SYCL"
#endif

namespace c13 {
namespace nm = nmtools;
namespace na = nmtools::array;
namespace fn = nmtools::functional;
namespace view = nmtools::view;
namespace meta = nmtools::meta;
using Shape = std::vector<size_t>;

inline std::string shape_str(const Shape& s) { std::string r; for (size_t i = 0; i < s.size(); i++) { if (i) r += "x"; r += std::to_string(s[i]); } return r.empty() ? "scalar" : r; }
inline size_t prod(const Shape& s) { size_t p = 1; for (auto x : s) p *= x; return p; }

template <class S> Shape to_vec(const S& s) {
    Shape v; constexpr auto N = meta::len_v<S>;
    if constexpr (N > 0) { meta::template_for<N>([&](auto i) { v.push_back((size_t)nm::at(s, i)); }); }
    else { size_t n = (size_t)nm::len(s); for (size_t i = 0; i < n; i++) v.push_back((size_t)nm::at(s, i)); }
    return v;
}

// dynamic-shape / dynamic-buffer operand (rank and extents are run-time draws)
template <class T> using darr = na::ndarray_t<std::vector<T>, std::vector<size_t>>;

// value styles: 0 small integers (exact arithmetic in every dtype), 1 quarters in [-2,2.25], 2 strictly positive (divisors, log)
template <class T> T draw_value(Rng& r, int style) {
    switch (style) {
        case 0: return (T)((long)r.below(14) - 4);
        case 2: return (T)(1 + (long)r.below(5)) / (std::is_floating_point<T>::value ? (T)2 : (T)1);
        default: if constexpr (std::is_floating_point<T>::value) return (T)((long)r.below(18) - 8) / (T)4; else return (T)((long)r.below(14) - 4);
    }
}
template <class T> darr<T> make_operand(const Shape& s, Rng& r, int style) {
    darr<T> a; a.resize(s);
    size_t n = prod(s); T* d = nm::data(a);
    for (size_t i = 0; i < n; i++) d[i] = draw_value<T>(r, style);
    return a;
}

// ---- comparison with host evaluation (the harness's own loop; utils::isequal/isclose are not used) -------------------
template <class A> bool has(const A& a) { if constexpr (meta::is_maybe_v<A>) return static_cast<bool>(a); else return true; }
template <class A> decltype(auto) unwrap_(const A& a) { if constexpr (meta::is_maybe_v<A>) return *a; else return (a); }

// contiguous element storage of an evaluation result (ndarray_t kinds through nmtools::data, the legacy dynamic class directly)
template <class V> auto raw_data(const V& v) {
    using D = decltype(nm::data(v));
    if constexpr (meta::is_fail_v<D>) return v.data.data(); else return nm::data(v);
}
template <class V> auto raw_data_mut(V& v) {
    using D = decltype(nm::data(v));
    if constexpr (meta::is_fail_v<D>) return v.data.data(); else return nm::data(v);
}

template <class R> bool same_result(const R& dev, const R& host, std::string& why) {
    if (has(dev) != has(host)) { why = std::string("device result is ") + (has(dev) ? "a value" : "Nothing") + ", host result is " + (has(host) ? "a value" : "Nothing"); return false; }
    if (!has(host)) return true;
    const auto& d = unwrap_(dev); const auto& h = unwrap_(host);
    using V = std::remove_cv_t<std::remove_reference_t<decltype(h)>>;
    if constexpr (meta::is_num_v<V>) { if (std::memcmp(&d, &h, sizeof(V)) != 0) { why = "scalar result differs"; return false; } return true; }
    else {
        Shape sd = to_vec(nm::shape(d)), sh = to_vec(nm::shape(h));
        if (sd != sh) { why = "shape " + shape_str(sd) + " differs from host shape " + shape_str(sh); return false; }
        using E = meta::get_element_type_t<V>;
        const E* pd = raw_data(d); const E* ph = raw_data(h); size_t n = prod(sh);
        for (size_t i = 0; i < n; i++) if (std::memcmp(pd + i, ph + i, sizeof(E)) != 0) {
            why = "flat element " + std::to_string(i) + " of " + std::to_string(n) + " (shape " + shape_str(sh) + "): device " + std::to_string((double)pd[i]) + ", host " + std::to_string((double)ph[i]);
            return false;
        }
        return true;
    }
}
template <class R> void result_geometry(const R& host, size_t& n, size_t& elem) {
    n = 0; elem = 0; if (!has(host)) return;
    const auto& h = unwrap_(host); using V = std::remove_cv_t<std::remove_reference_t<decltype(h)>>;
    if constexpr (meta::is_num_v<V>) { n = 1; elem = sizeof(V); }
    else { n = prod(to_vec(nm::shape(h))); elem = sizeof(meta::get_element_type_t<V>); }
}

// ---- back-end adapters -------------------------------------------------------------------------------------------------
#if defined(C13_BACKEND_CUDA)
using context_type = na::cuda::context_t;
#elif defined(C13_BACKEND_HIP)
using context_type = na::hip::context_t;
#else
using context_type = na::sycl::context_t;
#endif

struct RunParams { bool kernel_mode = false; unsigned block = 32; long grid_extra = 0; };
inline RunParams params_from(const Plan& p) { RunParams r; r.kernel_mode = p.get("mode") == "kernel"; r.block = (unsigned)p.geti("k.block", 32); r.grid_extra = p.geti("k.grid_extra", 0); return r; }

#if defined(C13_BACKEND_CUDA) || defined(C13_BACKEND_HIP)
// Kernel mode: device operands are prepared through the real context (create_array / create_buffer), then the REAL kernel
// entry point is launched with a geometry of the harness's choosing (block 1..33, grid exactly covering .. 2x).
template <class F, class Out, class Operands>
void launch_custom(context_type& ctx, const F& f, Out& output, const Operands& operands, const RunParams& rp) {
    constexpr auto N = meta::len_v<Operands>;
    auto device_operands = meta::template_reduce<N>([&](auto init, auto index) {
        const auto& arg_i = nm::at(operands, index);
        if constexpr (meta::is_num_v<decltype(arg_i)>) return nm::utility::tuple_append(init, arg_i);
        else { auto device_array = ctx.create_array(*arg_i); return nm::utility::tuple_append(init, device_array); }
    }, nmtools_tuple<>{});
#if defined(C13_BACKEND_HIP)
    auto fun = ctx.map_to_device(f);
#else
    const auto& fun = f;
#endif
    using out_element_t = meta::get_element_type_t<Out>;
    auto out_size = nm::size(output);
    auto out_shape = nm::shape<false, true>(output);
    auto out_dim = nm::len(out_shape);
    auto output_buffer = ctx.template create_buffer<out_element_t>(out_size);
    auto gpu_out_shape = ctx.create_buffer(out_shape);
    size_t block = rp.block ? rp.block : 1;
    size_t cover = ((size_t)out_size + block - 1) / block;
    size_t grid = cover + cover * (size_t)(rp.grid_extra < 0 ? 0 : rp.grid_extra > 100 ? 100 : rp.grid_extra) / 100;   // exactly covering .. 2x over-provisioned
    constexpr auto M = meta::len_v<decltype(device_operands)>;
    meta::template_reduce<1>([&](auto, auto) {   // expand the operand pack
        return [&]<auto... Is>(meta::index_sequence<Is...>) {
#if defined(C13_BACKEND_CUDA)
            NMTOOLS_VERIF_SIM_LAUNCH(nm_cuda_run_function, grid, block)(fun, output_buffer.get(), gpu_out_shape.get(), out_dim, nm::utl::tuple{context_type::get_(nm::get<Is>(device_operands))...});
#else
            NMTOOLS_VERIF_SIM_LAUNCH(nm_hip_run_function, grid, block)(fun, output_buffer.get(), gpu_out_shape.get(), out_dim, nm::utl::tuple{context_type::get_(nm::get<Is>(device_operands))...});
#endif
            return 0;
        }(meta::make_index_sequence<M>{});
    }, 0);
#if defined(C13_BACKEND_CUDA)
    cudaDeviceSynchronize();
#else
    hipDeviceSynchronize();
#endif
    ctx.copy_buffer(output_buffer, output);
}
#endif

// Evaluate `v` on the host and through the back-end; report HOST_EQUAL / COVERAGE violations.
template <class View>
void evaluate(const View& v, const Plan& plan, const std::string& pipeline) {
    auto& dev = simdev::device();
    auto key = [&](const std::string& c) { return pipeline + ":" C13_BACKEND_NAME ":" + c; };
    simdev::key_prefix() = pipeline + ":" C13_BACKEND_NAME ":";
    crash_note(pipeline + ":" C13_BACKEND_NAME ":host_eval");
    auto host = na::eval(v);
    size_t n = 0, elem = 0; result_geometry(host, n, elem);
    if (n == 0) { probe("c13.empty_result"); return; }
    dev.expect_n = n; dev.expect_elem = elem; dev.uncovered.clear();
    RunParams rp = params_from(plan);
    crash_note(pipeline + ":" C13_BACKEND_NAME ":device_eval");
    using R = decltype(host);
    auto ctx = std::make_shared<context_type>();
    std::string why;
    bool ok = true;
    try {
#if defined(C13_BACKEND_CUDA) || defined(C13_BACKEND_HIP)
        if (rp.kernel_mode) {
            // same steps as evaluator_t::operator()() with the launch replaced
            R out = host;   // right type and shape; contents overwritten below
            auto& o = const_cast<std::remove_cv_t<std::remove_reference_t<decltype(unwrap_(out))>>&>(unwrap_(out));
            using O = std::remove_reference_t<decltype(o)>;
            if constexpr (meta::is_num_v<O>) { probe("c13.kernel_mode_scalar_skipped"); return; }
            else {
                using E = meta::get_element_type_t<O>;
                E* p = raw_data_mut(o); for (size_t i = 0; i < n; i++) std::memset(p + i, 0xA7, sizeof(E));   // poison the host copy
                // a view built from run-time shapes may be a maybe<view>; host evaluation produced a value, so it holds one
                const auto& vv = unwrap_(v);
                auto f = fn::get_function_composition(vv);
                const auto& operands = fn::get_function_operands(vv);
                launch_custom(*ctx, f, o, operands, rp);
                ok = same_result(out, host, why);
            }
        } else
#endif
        {
            auto result = na::eval(v, ctx);
            ok = same_result(result, host, why);
        }
    } catch (const std::exception& e) {
        if (!verdict().failed()) fail("EXCEPTION", std::string("device evaluation threw: ") + e.what(), key("EXCEPTION"));
        return;
    }
    if (verdict().failed()) return;
    if constexpr (meta::is_num_v<std::remove_cv_t<std::remove_reference_t<decltype(unwrap_(host))>>>) {
        // a scalar result is computed on the host by every evaluator (output = static_cast<output_t>(view)): no device work to check
        if (!dev.kernel_ran) { probe("c13.scalar_result_host_evaluated"); return; }
    }
    if (!dev.kernel_ran) { fail("NO_KERNEL", "evaluation returned without any kernel having run", key("NO_KERNEL")); return; }
    if (dev.has_pending()) { fail("PENDING_KERNEL", "evaluation returned while a kernel was still pending (result read before synchronisation)", key("PENDING_KERNEL")); return; }
    if (dev.cfg.geometry_only) return;   // no thread ran: only the launch geometry was validated
    if (!ok) { fail("HOST_EQUAL", pipeline + " on " C13_BACKEND_NAME ": " + why, key("HOST_EQUAL")); return; }
    // Elements the byte diff did not see written: legitimate only if the bytes host evaluation expects there were already in
    // place before the launch (poison collision, e.g. int -1 under an all-0xFF fill); anything else was never written.
    if (!dev.uncovered.empty()) {
        const auto& hh = unwrap_(host); using V = std::remove_cv_t<std::remove_reference_t<decltype(hh)>>;
        const unsigned char* hb;
        if constexpr (meta::is_num_v<V>) hb = reinterpret_cast<const unsigned char*>(&hh); else hb = reinterpret_cast<const unsigned char*>(raw_data(hh));
        for (size_t i : dev.uncovered) {
            if (dev.prelaunch_out.size() >= (i + 1) * elem && std::memcmp(dev.prelaunch_out.data() + i * elem, hb + i * elem, elem) == 0) { probe("c13.poison_collision_elements"); continue; }
            fail("NOT_COVERED", "output element " + std::to_string(i) + " of " + std::to_string(n) + " was never written by any thread", key("NOT_COVERED")); return;
        }
    }
}

// dtype dispatch
template <class F> void with_dtype(const Plan& p, F&& f) {
    std::string d = p.get("dtype", "f32");
    if (d == "f32") f(float{}); else if (d == "f64") f(double{}); else f(int{});
}

inline uint64_t data_seed(const Plan& p) { return p.getu("data_seed", 1); }
inline std::vector<long> dims_of(const Plan& p) { return p.getlist("dims"); }
inline long dim_at(const std::vector<long>& d, size_t i, long lo, long hi) { long v = i < d.size() ? d[i] : lo; if (v < 0) v = -v; return lo + v % (hi - lo + 1); }

} // namespace c13
