// catalogue group B: reductions, accumulations, outer, mean/sum/prod, compositions ending in a reduction
#include "pipes.hpp"
#include "nmtools/array/view/ufuncs/add.hpp"
#include "nmtools/array/view/ufuncs/multiply.hpp"
#include "nmtools/array/view/ufuncs/maximum.hpp"
#include "nmtools/array/view/ufuncs/tanh.hpp"
#include "nmtools/array/view/ufuncs/subtract.hpp"
#include "nmtools/array/view/ufuncs/divide.hpp"
#include "nmtools/array/view/ufuncs/exp.hpp"
#include "nmtools/array/view/sum.hpp"
#include "nmtools/array/view/prod.hpp"
#include "nmtools/array/view/mean.hpp"
#include "nmtools/array/view/cumsum.hpp"
#include "nmtools/array/view/cumprod.hpp"
#include "nmtools/array/functional/sum.hpp"
#include "nmtools/array/functional/prod.hpp"
#include "nmtools/array/functional/mean.hpp"
#include "nmtools/array/functional/cumsum.hpp"
#include "nmtools/array/functional/cumprod.hpp"

namespace c13 {

#define AXIS(off) (int)dim_at(d, off, 0, (long)s.size() - 1)

C13_CASE(reduce_add_axis, C13_DTYPES_ALL, 6, { auto s = shape_nd(d, 0); auto a = make_operand<T>(s, r, 0); int axis = AXIS(5); auto v = view::reduce_add(a, axis); EVAL(v); })
C13_CASE(reduce_add_keepdims, C13_DTYPES_ALL, 6, { auto s = shape_nd(d, 0); auto a = make_operand<T>(s, r, 0); int axis = AXIS(5); auto v = view::reduce_add(a, axis, nm::None, nm::None, nm::True); EVAL(v); })
C13_CASE(reduce_add_negative_axis, C13_DTYPES_ALL, 6, { auto s = shape_nd(d, 0); auto a = make_operand<T>(s, r, 0); int axis = AXIS(5) - (int)s.size(); auto v = view::reduce_add(a, axis, nm::None, nm::None, nm::True); EVAL(v); })
C13_CASE(reduce_multiply_axis, C13_DTYPES_ALL, 6, { auto s = shape_nd(d, 0); auto a = make_operand<T>(s, r, 2); int axis = AXIS(5); auto v = view::reduce_multiply(a, axis); EVAL(v); })
C13_CASE(reduce_maximum_keepdims, C13_DTYPES_ALL, 6, { auto s = shape_nd(d, 0); auto a = make_operand<T>(s, r, 0); int axis = AXIS(5); auto v = view::reduce_maximum(a, axis, nm::None, nm::None, nm::True); EVAL(v); })
C13_CASE(reduce_add_initial, C13_DTYPES_ALL, 6, { auto s = shape_nd(d, 0); auto a = make_operand<T>(s, r, 0); int axis = AXIS(5); auto v = view::reduce_add(a, axis, nm::None, (T)3); EVAL(v); })
C13_CASE(sum_axis, C13_DTYPES_ALL, 6, { auto s = shape_nd(d, 0); auto a = make_operand<T>(s, r, 0); int axis = AXIS(5); auto v = view::sum(a, axis); EVAL(v); })
C13_CASE(prod_axis, C13_DTYPES_ALL, 6, { auto s = shape_nd(d, 0); auto a = make_operand<T>(s, r, 2); int axis = AXIS(5); auto v = view::prod(a, axis); EVAL(v); })
C13_CASE(accumulate_add, C13_DTYPES_ALL, 6, { auto s = shape_nd(d, 0); auto a = make_operand<T>(s, r, 0); int axis = AXIS(5); auto v = view::accumulate_add(a, axis); EVAL(v); })
C13_CASE(cumsum_axis, C13_DTYPES_ALL, 6, { auto s = shape_nd(d, 0); auto a = make_operand<T>(s, r, 0); int axis = AXIS(5); auto v = view::cumsum(a, axis); EVAL(v); })
C13_CASE(cumprod_axis, C13_DTYPES_ALL, 6, { auto s = shape_nd(d, 0); auto a = make_operand<T>(s, r, 2); int axis = AXIS(5); auto v = view::cumprod(a, axis); EVAL(v); })
C13_CASE(outer_multiply, C13_DTYPES_ALL, 6, { auto sa = shape_nd(d, 0, 2); auto sb = shape_nd(d, 3, 2); auto a = make_operand<T>(sa, r, 0); auto b = make_operand<T>(sb, r, 0); auto v = view::outer_multiply(a, b); EVAL(v); })
C13_CASE(mean_axis, C13_DTYPES_FLOAT, 6, { auto s = shape_nd(d, 0); auto a = make_operand<T>(s, r, 1); int axis = AXIS(5); auto v = view::mean(a, axis); EVAL(v); })
// compositions
C13_CASE(sum_tanh_add, C13_DTYPES_FLOAT, 8, { auto s = shape_nd(d, 0); auto a = make_operand<T>(s, r, 1); auto b = make_operand<T>(broadcast_partner(s, d, 5), r, 1); int axis = AXIS(7);
    auto x = view::add(a, b); auto y = view::tanh(x); auto v = view::reduce_add(y, axis); EVAL(v); })
C13_CASE(tanh_sum_multiply, C13_DTYPES_FLOAT, 8, { auto s = shape_nd(d, 0); auto a = make_operand<T>(s, r, 1); auto b = make_operand<T>(broadcast_partner(s, d, 5), r, 1); int axis = AXIS(7);
    auto x = view::multiply(a, b); auto y = view::reduce_add(x, axis, nm::None, nm::None, nm::True); auto v = view::tanh(y); EVAL(v); })
C13_CASE(max_subtract_exp, C13_DTYPES_FLOAT, 6, { auto s = shape_nd(d, 0); auto a = make_operand<T>(s, r, 1); int axis = AXIS(5);
    auto x = view::reduce_maximum(a, axis, nm::None, nm::None, nm::True); auto y = view::subtract(x, a); auto v = view::exp(y); EVAL(v); })
C13_CASE(sum_divide_scalar, C13_DTYPES_FLOAT, 6, { auto s = shape_nd(d, 0); auto a = make_operand<T>(s, r, 1); int axis = AXIS(5); auto x = view::reduce_add(a, axis); auto v = view::divide(x, (T)4); EVAL(v); })

} // namespace c13
