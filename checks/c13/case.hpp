// registry types of the C13 catalogue (no nmtools headers)
#pragma once
#include <vector>
#include <string>
#include <functional>
#include "../../sim/rng.hpp"
#include "../../sim/plan.hpp"
namespace c13 {
using namespace sim;
struct Case {
    std::string pipeline;        // name
    std::string backend;         // cuda | hip | sycl
    std::vector<std::string> dtypes;
    bool kernel_mode;            // can the harness launch the kernel entry with a geometry of its own?
    bool in_search = true;       // false: only run from findings/ plans (exhibits a known finding), never drawn by the search
    // draws pipeline parameters ("dims": extents / axes / flags, all interpreted modulo what is legal, so they shrink freely)
    std::function<void(Rng&, std::vector<long>&, const std::string& tier)> gen;
    std::function<void(const Plan&)> run;
};
std::vector<Case>& registry();
struct Registrar { Registrar(Case c) { registry().push_back(std::move(c)); } };

} // namespace c13
