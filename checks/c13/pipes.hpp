// helpers shared by the pipeline catalogue
#pragma once
#include "harness.hpp"

namespace c13 {

// "dims" parameters: interpreted modulo what is legal, so that any shrinking of them yields another valid case.
// rank 1..4 at d[off], extents at d[off+1..off+4]
inline Shape shape_nd(const std::vector<long>& d, size_t off, long maxrank = 4) {
    long rank = dim_at(d, off, 1, maxrank);
    Shape s; for (long i = 0; i < rank; i++) s.push_back((size_t)dim_at(d, off + 1 + (size_t)i, 1, rank >= 4 ? 4 : 6));
    return s;
}
// a shape that broadcasts against `s`: per axis keep / 1, optionally drop leading axes (flags at d[off], d[off+1])
inline Shape broadcast_partner(const Shape& s, const std::vector<long>& d, size_t off) {
    long mask = dim_at(d, off, 0, 15), drop = dim_at(d, off + 1, 0, (long)s.size() - 1);
    Shape r;
    for (size_t i = (size_t)drop; i < s.size(); i++) r.push_back((mask >> i) & 1 ? 1 : s[i]);
    return r;
}
inline void gen_dims(Rng& r, std::vector<long>& d, size_t n) { d.clear(); for (size_t i = 0; i < n; i++) d.push_back((long)r.below(24)); }

#define C13_DTYPES_ALL std::vector<std::string>{"f32", "f64", "i32"}
#define C13_DTYPES_FLOAT std::vector<std::string>{"f32", "f64"}

#if defined(C13_BACKEND_SYCL)
#define C13_KMODE false
#else
#define C13_KMODE true
#endif

// BODY sees: T (element type), d (dims), r (data rng), plan; it builds operands and ends with EVAL(view)
#define C13_CASE(NAME, DTYPES, NDIMS, ...) \
    static Registrar reg_##NAME(Case{#NAME, C13_BACKEND_NAME, DTYPES, C13_KMODE, true, \
        [](Rng& r, std::vector<long>& d, const std::string&) { gen_dims(r, d, NDIMS); }, \
        [](const Plan& plan) { with_dtype(plan, [&](auto t_) { using T = decltype(t_); (void)sizeof(T); auto d = dims_of(plan); Rng r(data_seed(plan)); const char* case_name = #NAME; __VA_ARGS__ }); }});
#define EVAL(V) evaluate((V), plan, case_name)
// a case that is kept out of the search: it exhibits a known finding and is only run from findings/C13/*.replay
#define C13_FINDING_CASE(NAME, DTYPES, NDIMS, ...) \
    static Registrar reg_##NAME(Case{#NAME, C13_BACKEND_NAME, DTYPES, C13_KMODE, false, \
        [](Rng& r, std::vector<long>& d, const std::string&) { gen_dims(r, d, NDIMS); }, \
        [](const Plan& plan) { with_dtype(plan, [&](auto t_) { using T = decltype(t_); (void)sizeof(T); auto d = dims_of(plan); Rng r(data_seed(plan)); const char* case_name = #NAME; __VA_ARGS__ }); }});

} // namespace c13
