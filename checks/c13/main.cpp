// C13 engine: one binary per back-end; picks a pipeline, inputs, device behaviour, schedule and geometry per run.
#include "../../sim/rng.hpp"
#include "../../sim/plan.hpp"
#include "../../sim/trace.hpp"
#include "../../sim/simdev.hpp"
#include "../../sim/runner.hpp"
#include "case.hpp"

namespace c13 {
std::vector<Case>& registry() { static std::vector<Case> r; return r; }

struct C13Engine : sim::Engine {
    std::string only, backend;
    const char* property() const override { return "C13"; }
    const char* name() const override { return backend.c_str(); }
    std::vector<Case*> candidates() { std::vector<Case*> c; for (auto& t : registry()) if (t.in_search && (only.empty() || t.pipeline.find(only) != std::string::npos)) c.push_back(&t); return c; }
    Plan generate(uint64_t run_seed, const std::string& tier) override {
        Rng root(run_seed); Plan p; auto c = candidates();
        Rng pr = root.derive("plan"), sr = root.derive("schedule"), hr = root.derive("heap");
        Case* t = c[pr.below(c.size())];
        p.set("property", "C13"); p.set("pipeline", t->pipeline); p.set("backend", t->backend);
        p.set("dtype", t->dtypes[pr.below(t->dtypes.size())]);
        std::vector<long> d; t->gen(pr, d, tier); p.setlist("dims", d);
        p.setu("data_seed", root.derive("data").next());
        bool kernel = t->kernel_mode && sr.chance(0.45);
        p.set("mode", kernel ? "kernel" : "context");
        // schedule and fault space, swarm style: each run enables a random subset
        p.seti("dev.order", (long)sr.below(6)); p.setu("dev.order_seed", sr.next());
        p.seti("dev.dup", sr.chance(0.5) ? (long)(20 + sr.below(180)) : 0);
        p.seti("dev.isolate", (long)sr.below(2)); p.seti("dev.defer", (long)sr.below(2)); p.seti("dev.lazy", (long)sr.below(2));
        static const long warps[] = {1, 2, 3, 4, 5, 7, 8, 13, 16, 17, 31, 32, 33, 64};
        p.seti("dev.warp", sr.chance(0.3) ? 32 : warps[sr.below(14)]);
        p.seti("k.block", 1 + (long)sr.below(33)); p.seti("k.grid_extra", sr.chance(0.3) ? 0 : (long)sr.below(101));   // interpreted as a share (0..99 %) of the exactly covering grid
        p.seti("heap.reuse", (long)hr.below(4)); p.setu("heap.poison", hr.next() | 1); p.seti("heap.fill", (long)hr.below(3));
        return p;
    }
    void execute(const Plan& p) override {
        Case* t = nullptr; for (auto& x : registry()) if (x.pipeline == p.get("pipeline")) t = &x;
        if (!t) { fail("INFRA", "unknown pipeline " + p.get("pipeline")); return; }
        simdev::Config c;
        c.order = (int)p.geti("dev.order"); c.order_seed = p.getu("dev.order_seed", 1); c.dup_permille = (unsigned)p.geti("dev.dup");
        c.isolate = p.geti("dev.isolate") != 0; c.defer = p.geti("dev.defer") != 0; c.lazy_h2d = p.geti("dev.lazy") != 0;
        c.geometry_only = p.geti("dev.geometry_only", 0) != 0;
        c.warp = (int)p.geti("dev.warp", 32); if (c.warp < 1) c.warp = 1; if (c.warp > 64) c.warp = 64;
        sim::HeapCfg h; h.reuse = (int)(p.geti("heap.reuse") & 3); h.poison_seed = p.getu("heap.poison", 1); h.fill = (int)(p.geti("heap.fill") % 3); h.malloc0_null = false;
        auto& dev = simdev::device();
        dev.reset(c, h);
        sim::crash_note(p.get("pipeline") + ":" + backend);
        t->run(p);
        // device memory must be fully released when the evaluation is over, and intact
        if (!verdict().failed()) {
            simdev::Device::Access a(dev);
            dev.heap().check_integrity();
            if (!dev.heap().errors().empty()) fail(dev.heap().errors()[0].first, "device memory: " + dev.heap().errors()[0].second, simdev::key_prefix() + "DEV_" + dev.heap().errors()[0].first);
            else if (dev.heap().live_count() != 0) fail("DEVICE_LEAK", std::to_string(dev.heap().live_count()) + " device allocation(s) still live after the evaluation returned: " + dev.heap().live_summary(), simdev::key_prefix() + "DEVICE_LEAK");
        }
        auto& st = dev.stats;
        ticks = st.threads;
        sig2 = st.schedule_hash;
        std::string mode = p.get("mode");
        unsigned block = mode == "kernel" ? (unsigned)p.geti("k.block") : (unsigned)c.warp;
        sig = fnv1a(p.get("pipeline") + "|" + backend + "|" + mode + "|" + p.get("dtype") + "|" + p.get("dims") + "|b" + std::to_string(block) + "|g" + (mode == "kernel" ? p.get("k.grid_extra") : "ctx") +
                    "|o" + std::to_string(c.order % 6) + "|d" + std::to_string(c.dup_permille > 0) + "|i" + std::to_string(c.isolate) + "|f" + std::to_string(c.defer) + "|l" + std::to_string(c.lazy_h2d));
        nontrivial = st.in_range_threads >= 2 && (c.order % 6 != 0 || c.dup_permille > 0 || c.isolate || c.defer || c.lazy_h2d);
        probe("runs." + p.get("pipeline")); probe("mode." + mode); probe(std::string("order.") + simdev::Config::order_name(c.order));
        probe("dev.threads", st.threads); probe("dev.in_range_threads", st.in_range_threads); probe("dev.dup_threads", st.dup_threads); probe("dev.launches", st.launches);
        if (c.isolate) probe("fault.isolate_runs"); if (c.defer) probe("fault.defer_runs"); if (c.lazy_h2d) probe("fault.lazy_h2d_runs"); if (c.dup_permille) probe("fault.dup_runs");
        probe("geometry.block." + std::to_string(block));
        probe("dev.h2d", st.h2d); probe("dev.d2h", st.d2h);
    }
    std::vector<Plan> simplify(const Plan& p) override {
        std::vector<Plan> out;
        auto with = [&](const std::string& k, const std::string& v) { if (p.get(k) != v) { Plan q = p; q.set(k, v); out.push_back(q); } };
        with("dev.dup", "0"); with("dev.isolate", "0"); with("dev.defer", "0"); with("dev.lazy", "0"); with("dev.order", "0"); with("mode", "context");
        with("dev.warp", "32"); with("k.grid_extra", "0"); with("heap.fill", "0"); with("heap.reuse", "3");
        auto d = p.getlist("dims");
        for (size_t i = 0; i < d.size(); i++) for (long cand : {0L, d[i] / 2, d[i] - 1}) if (cand >= 0 && cand < d[i]) { Plan q = p; auto e = d; e[i] = cand; q.setlist("dims", e); out.push_back(q); }
        for (long cand : {1L, 2L, 4L}) if (p.geti("k.block") > cand) { Plan q = p; q.seti("k.block", cand); out.push_back(q); }
        for (long cand : {1L, 2L, 4L}) if (p.geti("dev.warp") > cand && p.geti("dev.warp") != 32) { Plan q = p; q.seti("dev.warp", cand); out.push_back(q); }
        if (p.get("dtype") != "i32") { bool ok = false; for (auto& x : registry()) if (x.pipeline == p.get("pipeline")) for (auto& dt : x.dtypes) ok |= dt == "i32"; if (ok) with("dtype", "i32"); }
        return out;
    }
    bool shrink_args() const override { return false; }
};
}
int main(int argc, char** argv) {
    c13::C13Engine e;
    e.backend = c13::registry().empty() ? "none" : c13::registry()[0].backend;
    for (int i = 1; i + 1 < argc; i++) if (std::string(argv[i]) == "--pipeline") e.only = argv[i + 1];
    if (argc > 1 && std::string(argv[1]) == "--list") { for (auto& t : c13::registry()) printf("%s %s\n", t.backend.c_str(), t.pipeline.c_str()); return 0; }
    return sim::sim_main(argc, argv, e);
}
