// catalogue group C: shape manipulation and indexing views
#include "pipes.hpp"
#include "nmtools/array/view/reshape.hpp"
#include "nmtools/array/view/transpose.hpp"
#include "nmtools/array/view/moveaxis.hpp"
#include "nmtools/array/view/flatten.hpp"
#include "nmtools/array/view/squeeze.hpp"
#include "nmtools/array/view/expand_dims.hpp"
#include "nmtools/array/view/flip.hpp"
#include "nmtools/array/view/tile.hpp"
#include "nmtools/array/view/repeat.hpp"
#include "nmtools/array/view/pad.hpp"
#include "nmtools/array/view/broadcast_to.hpp"
#include "nmtools/array/view/atleast_nd.hpp"
#include "nmtools/array/view/ufuncs/add.hpp"
#include "nmtools/array/view/ufuncs/tanh.hpp"
#include "nmtools/array/functional/transpose.hpp"
#include "nmtools/array/functional/moveaxis.hpp"
#include "nmtools/array/functional/tile.hpp"
#include "nmtools/array/functional/atleast_nd.hpp"

namespace c13 {

#define AXIS(off) (int)dim_at(d, off, 0, (long)s.size() - 1)

C13_CASE(reshape_2d, C13_DTYPES_ALL, 6, { auto s = shape_nd(d, 0); auto a = make_operand<T>(s, r, 0); size_t n = prod(s); size_t f = 1; for (size_t k = 1 + (size_t)dim_at(d, 5, 0, 5); k >= 1; k--) if (n % k == 0) { f = k; break; }
    std::vector<size_t> ns{f, n / f}; auto v = view::reshape(a, ns); EVAL(v); })
C13_CASE(moveaxis, C13_DTYPES_ALL, 7, { auto s = shape_nd(d, 0); auto a = make_operand<T>(s, r, 0); int src = AXIS(5), dst = AXIS(6); auto v = view::moveaxis(a, src, dst); EVAL(v); })
C13_CASE(squeeze, C13_DTYPES_ALL, 6, { auto s = shape_nd(d, 0); s[(size_t)AXIS(5)] = 1; auto a = make_operand<T>(s, r, 0); auto v = view::squeeze(a); EVAL(v); })
C13_CASE(expand_dims, C13_DTYPES_ALL, 6, { auto s = shape_nd(d, 0, 3); auto a = make_operand<T>(s, r, 0); int axis = (int)dim_at(d, 5, 0, (long)s.size()); auto v = view::expand_dims(a, axis); EVAL(v); })
C13_CASE(flip_axis, C13_DTYPES_ALL, 6, { auto s = shape_nd(d, 0); auto a = make_operand<T>(s, r, 0); int axis = AXIS(5); auto v = view::flip(a, axis); EVAL(v); })
C13_CASE(flip_all, C13_DTYPES_ALL, 5, { auto s = shape_nd(d, 0); auto a = make_operand<T>(s, r, 0); auto v = view::flip(a, nm::None); EVAL(v); })
C13_CASE(tile, C13_DTYPES_ALL, 8, { auto s = shape_nd(d, 0, 3); auto a = make_operand<T>(s, r, 0); std::vector<size_t> reps; for (size_t i = 0; i < s.size(); i++) reps.push_back((size_t)dim_at(d, 5 + i, 1, 2)); auto v = view::tile(a, reps); EVAL(v); })
C13_CASE(repeat_axis, C13_DTYPES_ALL, 7, { auto s = shape_nd(d, 0, 3); auto a = make_operand<T>(s, r, 0); int axis = AXIS(5); size_t reps = (size_t)dim_at(d, 6, 1, 3); auto v = view::repeat(a, reps, axis); EVAL(v); })
C13_CASE(broadcast_to, C13_DTYPES_ALL, 8, { auto s = shape_nd(d, 0); auto src = broadcast_partner(s, d, 5); auto a = make_operand<T>(src, r, 0); std::vector<size_t> dst(s.begin(), s.end()); auto v = view::broadcast_to(a, dst); EVAL(v); })
C13_CASE(atleast_3d, C13_DTYPES_ALL, 5, { auto s = shape_nd(d, 0, 2); auto a = make_operand<T>(s, r, 0); auto v = view::atleast_nd(a, nm::meta::ct_v<3>); EVAL(v); })
// compositions over shape views

} // namespace c13
