// catalogue group G: generators (no array operand), slices, multi-axis and axis=None reductions, pooling, resize
#include "pipes.hpp"
#include "nmtools/array/view/arange.hpp"
#include "nmtools/array/view/full.hpp"
#include "nmtools/array/view/ones.hpp"
#include "nmtools/array/view/zeros.hpp"
#include "nmtools/array/view/slice.hpp"
#include "nmtools/array/view/sum.hpp"
#include "nmtools/array/view/pooling.hpp"
#include "nmtools/array/view/ufuncs/add.hpp"
#include "nmtools/array/view/ufuncs/multiply.hpp"
#include "nmtools/array/view/ufuncs/maximum.hpp"
#include "nmtools/array/functional/sum.hpp"

namespace c13 {

C13_CASE(slice_2d, C13_DTYPES_ALL, 6, { Shape s{(size_t)dim_at(d, 0, 1, 6), (size_t)dim_at(d, 1, 1, 6)}; auto a = make_operand<T>(s, r, 0);
    int st0 = (int)dim_at(d, 2, 1, 2); int b1 = (int)dim_at(d, 3, 0, (long)s[1] - 1); int e1 = b1 + 1 + (int)dim_at(d, 4, 0, (long)s[1] - 1 - b1);
    auto v = view::slice(a, nmtools_tuple{nm::None, nm::None, st0}, nmtools_tuple{b1, e1}); EVAL(v); })
C13_CASE(slice_reversed, C13_DTYPES_ALL, 5, { Shape s{(size_t)dim_at(d, 0, 1, 6), (size_t)dim_at(d, 1, 1, 6)}; auto a = make_operand<T>(s, r, 0); auto v = view::slice(a, nmtools_tuple{nm::None, nm::None, -1}, nmtools_tuple{nm::None, nm::None}); EVAL(v); })
C13_CASE(reduce_add_two_axes, C13_DTYPES_ALL, 5, { auto s = shape_nd(d, 0); if (s.size() < 2) s.push_back(2); auto a = make_operand<T>(s, r, 0); nmtools_array<int, 2> axes{0, (int)s.size() - 1}; auto v = view::reduce_add(a, axes); EVAL(v); })
// run-time-length attribute vectors with negative entries (as_static / map_to_device on HIP and SYCL must keep the sign)
C13_CASE(reduce_add_axes_vector, C13_DTYPES_ALL, 7, { auto s = shape_nd(d, 0); if (s.size() < 2) s.push_back(2); auto a = make_operand<T>(s, r, 0); int R = (int)s.size();
    int a0 = (int)dim_at(d, 5, 0, R - 1); int a1 = (a0 + 1 + (int)dim_at(d, 6, 0, R - 2)) % R; std::vector<int> axes{(dim_at(d, 5, 0, 23) & 1) ? a0 - R : a0, (dim_at(d, 6, 0, 23) & 1) ? a1 - R : a1};
    auto v = view::reduce_add(a, axes); EVAL(v); })
C13_CASE(reduce_max_axes_vector_keepdims, C13_DTYPES_ALL, 6, { auto s = shape_nd(d, 0); auto a = make_operand<T>(s, r, 0); int R = (int)s.size(); int a0 = (int)dim_at(d, 5, 0, R - 1); std::vector<int> axes{a0 - R};
    auto v = view::reduce_maximum(a, axes, nm::None, nm::None, nm::True); EVAL(v); })
C13_CASE(sum_axes_vector, C13_DTYPES_ALL, 6, { auto s = shape_nd(d, 0); auto a = make_operand<T>(s, r, 0); int R = (int)s.size(); std::vector<int> axes{-1}; if (R > 1 && (dim_at(d, 5, 0, 23) & 1)) axes.push_back(0); auto v = view::sum(a, axes); EVAL(v); })
C13_CASE(max_pool2d, C13_DTYPES_FLOAT, 4, { Shape s{1, 1, (size_t)dim_at(d, 0, 2, 6), (size_t)dim_at(d, 1, 2, 6)}; auto a = make_operand<T>(s, r, 1); nmtools_array<int, 2> k{2, 2}; nmtools_array<int, 2> st{2, 2}; auto v = view::max_pool2d(a, k, st, nm::True); EVAL(v); })
C13_CASE(avg_pool2d, C13_DTYPES_FLOAT, 4, { Shape s{1, 1, (size_t)dim_at(d, 0, 2, 6), (size_t)dim_at(d, 1, 2, 6)}; auto a = make_operand<T>(s, r, 1); nmtools_array<int, 2> k{2, 2}; nmtools_array<int, 2> st{2, 2}; auto v = view::avg_pool2d(a, k, st, nm::True); EVAL(v); })

} // namespace c13
