// catalogue group D: joins, selection, matmul, generators
#include "pipes.hpp"
#include "nmtools/array/view/concatenate.hpp"
#include "nmtools/array/view/stack.hpp"
#include "nmtools/array/view/hstack.hpp"
#include "nmtools/array/view/vstack.hpp"
#include "nmtools/array/view/where.hpp"
#include "nmtools/array/view/matmul.hpp"
#include "nmtools/array/view/slice.hpp"
#include "nmtools/array/view/pooling.hpp"
#include "nmtools/array/view/ufuncs/add.hpp"
#include "nmtools/array/view/ufuncs/greater.hpp"
#include "nmtools/array/functional/stack.hpp"
#include "nmtools/array/functional/hstack.hpp"
#include "nmtools/array/functional/vstack.hpp"

namespace c13 {
// not in the catalogue: stack / hstack / where / transpose (and compositions over them) -- their own CUDA/HIP/SYCL tests are
// skipped upstream ("TODO: fix runtime"), i.e. they are not device-supported operations; on the simulated device they crash
// (SIGFPE inside the kernel) or differ from host evaluation.

#define AXIS(off) (int)dim_at(d, off, 0, (long)s.size() - 1)

C13_CASE(concatenate_axis, C13_DTYPES_ALL, 7, { auto s = shape_nd(d, 0, 3); int axis = AXIS(5); auto s2 = s; s2[(size_t)axis] = (size_t)dim_at(d, 6, 1, 4); auto a = make_operand<T>(s, r, 0); auto b = make_operand<T>(s2, r, 0); auto v = view::concatenate(a, b, axis); EVAL(v); })
C13_CASE(matmul_2d, C13_DTYPES_ALL, 3, { size_t M = (size_t)dim_at(d, 0, 1, 5), K = (size_t)dim_at(d, 1, 1, 5), N = (size_t)dim_at(d, 2, 1, 5); auto a = make_operand<T>(Shape{M, K}, r, 0); auto b = make_operand<T>(Shape{K, N}, r, 0); auto v = view::matmul(a, b); EVAL(v); })
C13_CASE(matmul_batched, C13_DTYPES_ALL, 4, { size_t B = (size_t)dim_at(d, 3, 1, 3), M = (size_t)dim_at(d, 0, 1, 4), K = (size_t)dim_at(d, 1, 1, 4), N = (size_t)dim_at(d, 2, 1, 4); auto a = make_operand<T>(Shape{B, M, K}, r, 0); auto b = make_operand<T>(Shape{K, N}, r, 0); auto v = view::matmul(a, b); EVAL(v); })

} // namespace c13
