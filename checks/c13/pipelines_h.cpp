// catalogue group H: activations whose op object carries run-time parameters (negative slope, alpha, lambda, min/max, beta/threshold).
// The parameters are drawn per run and differ from the defaults, so a device path that rebuilds the op from its type alone
// (instead of the op object stored in the view) is visible.
#include "pipes.hpp"
#include "nmtools/array/view/ufuncs/add.hpp"
#include "nmtools/array/view/ufuncs/divide.hpp"
#include "nmtools/array/view/ufuncs/tanh.hpp"
#include "nmtools/array/view/activations/elu.hpp"
#include "nmtools/array/view/activations/hardshrink.hpp"
#include "nmtools/array/view/activations/hardtanh.hpp"
#include "nmtools/array/view/activations/leaky_relu.hpp"
#include "nmtools/array/view/activations/prelu.hpp"
#include "nmtools/array/view/activations/softplus.hpp"
#include "nmtools/array/view/activations/softshrink.hpp"

namespace c13 {

// k/8 for k in 1..24, never one of the defaults 0.01, 0.25 (prelu: k == 2 is skipped below), 0.5 (k == 4), 1.0 (k == 8)
template <class T> inline T param_at(const std::vector<long>& d, size_t i) {
    long k = dim_at(d, i, 1, 24); if (k == 2 || k == 4 || k == 8) k += 1;
    return (T)k / (T)8;
}

C13_CASE(leaky_relu_param, C13_DTYPES_FLOAT, 7, { auto a = make_operand<T>(shape_nd(d, 0), r, 1); auto v = view::leaky_relu(a, param_at<T>(d, 5)); EVAL(v); })
C13_CASE(elu_param, C13_DTYPES_FLOAT, 7, { auto a = make_operand<T>(shape_nd(d, 0), r, 1); auto v = view::elu(a, param_at<T>(d, 5)); EVAL(v); })
C13_CASE(prelu_param, C13_DTYPES_FLOAT, 7, { auto a = make_operand<T>(shape_nd(d, 0), r, 1); auto v = view::prelu(a, param_at<T>(d, 5)); EVAL(v); })
C13_CASE(hardshrink_param, C13_DTYPES_FLOAT, 7, { auto a = make_operand<T>(shape_nd(d, 0), r, 1); auto v = view::hardshrink(a, param_at<T>(d, 5)); EVAL(v); })
C13_CASE(softshrink_param, C13_DTYPES_FLOAT, 7, { auto a = make_operand<T>(shape_nd(d, 0), r, 1); auto v = view::softshrink(a, param_at<T>(d, 5)); EVAL(v); })
C13_CASE(hardtanh_param, C13_DTYPES_FLOAT, 7, { auto a = make_operand<T>(shape_nd(d, 0), r, 1); auto v = view::hardtanh(a, (T)-param_at<T>(d, 5), param_at<T>(d, 6)); EVAL(v); })
C13_CASE(softplus_param, C13_DTYPES_FLOAT, 7, { auto a = make_operand<T>(shape_nd(d, 0), r, 1); auto v = view::softplus(a, param_at<T>(d, 5), param_at<T>(d, 6)); EVAL(v); })
C13_CASE(leaky_relu_param_add, C13_DTYPES_FLOAT, 9, { auto s = shape_nd(d, 0); auto a = make_operand<T>(s, r, 1); auto b = make_operand<T>(broadcast_partner(s, d, 7), r, 1);
    auto x = view::leaky_relu(a, param_at<T>(d, 5)); auto v = view::add(x, b); EVAL(v); })
C13_CASE(hardtanh_param_div_tanh, C13_DTYPES_FLOAT, 7, { auto a = make_operand<T>(shape_nd(d, 0), r, 1); auto x = view::hardtanh(a, (T)-param_at<T>(d, 5), param_at<T>(d, 6));
    auto y = view::divide(x, (T)4); auto v = view::tanh(y); EVAL(v); })

} // namespace c13
