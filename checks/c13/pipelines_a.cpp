// catalogue group A: element-wise ufuncs, activations, broadcasting, scalar operands
#include "pipes.hpp"
#include "nmtools/array/view/ufuncs/add.hpp"
#include "nmtools/array/view/ufuncs/subtract.hpp"
#include "nmtools/array/view/ufuncs/multiply.hpp"
#include "nmtools/array/view/ufuncs/divide.hpp"
#include "nmtools/array/view/ufuncs/tanh.hpp"
#include "nmtools/array/view/ufuncs/exp.hpp"
#include "nmtools/array/view/ufuncs/maximum.hpp"
#include "nmtools/array/view/activations/relu.hpp"
#include "nmtools/array/view/activations/sigmoid.hpp"
#include "nmtools/array/functional/ufuncs/add.hpp"
#include "nmtools/array/functional/ufuncs/subtract.hpp"
#include "nmtools/array/functional/ufuncs/multiply.hpp"
#include "nmtools/array/functional/ufuncs/divide.hpp"
#include "nmtools/array/functional/ufuncs/tanh.hpp"
#include "nmtools/array/functional/ufuncs/exp.hpp"
#include "nmtools/array/functional/ufuncs/maximum.hpp"
#include "nmtools/array/functional/activations/relu.hpp"
#include "nmtools/array/functional/activations/sigmoid.hpp"

namespace c13 {

C13_CASE(tanh, C13_DTYPES_FLOAT, 5, { auto a = make_operand<T>(shape_nd(d, 0), r, 1); auto v = view::tanh(a); EVAL(v); })
C13_CASE(relu, C13_DTYPES_ALL, 5, { auto a = make_operand<T>(shape_nd(d, 0), r, 1); auto v = view::relu(a); EVAL(v); })
C13_CASE(sigmoid, C13_DTYPES_FLOAT, 5, { auto a = make_operand<T>(shape_nd(d, 0), r, 1); auto v = view::sigmoid(a); EVAL(v); })
C13_CASE(add_broadcast, C13_DTYPES_ALL, 7, { auto s = shape_nd(d, 0); auto a = make_operand<T>(s, r, 0); auto b = make_operand<T>(broadcast_partner(s, d, 5), r, 0); auto v = view::add(a, b); EVAL(v); })
C13_CASE(subtract_broadcast, C13_DTYPES_ALL, 7, { auto s = shape_nd(d, 0); auto a = make_operand<T>(broadcast_partner(s, d, 5), r, 0); auto b = make_operand<T>(s, r, 0); auto v = view::subtract(a, b); EVAL(v); })
C13_CASE(divide_broadcast, C13_DTYPES_FLOAT, 7, { auto s = shape_nd(d, 0); auto a = make_operand<T>(s, r, 1); auto b = make_operand<T>(broadcast_partner(s, d, 5), r, 2); auto v = view::divide(a, b); EVAL(v); })
C13_CASE(multiply_scalar, C13_DTYPES_ALL, 5, { auto a = make_operand<T>(shape_nd(d, 0), r, 0); auto v = view::multiply(a, (T)3); EVAL(v); })
C13_CASE(scalar_subtract, C13_DTYPES_ALL, 5, { auto a = make_operand<T>(shape_nd(d, 0), r, 0); auto v = view::subtract((T)2, a); EVAL(v); })
C13_CASE(maximum_broadcast, C13_DTYPES_ALL, 7, { auto s = shape_nd(d, 0); auto a = make_operand<T>(s, r, 0); auto b = make_operand<T>(broadcast_partner(s, d, 5), r, 0); auto v = view::maximum(a, b); EVAL(v); })
// geometry probe: a 1-d output of `big_n` elements (plan key), only meaningful with dev.geometry_only=1 (no thread is executed)
C13_FINDING_CASE(big_1d_relu, C13_DTYPES_FLOAT, 1, { size_t n = (size_t)plan.getu("big_n", 1000); darr<T> a; a.resize(Shape{n}); T* p = nm::data(a); for (size_t i = 0; i < n; i += 4099) p[i] = (T)1; auto v = view::relu(a); EVAL(v); })
// compositions (depth 2-3), repeated leaf, binary tree
C13_CASE(tanh_add_scalar, C13_DTYPES_FLOAT, 5, { auto a = make_operand<T>(shape_nd(d, 0), r, 1); auto x = view::add(a, (T)0.5); auto v = view::tanh(x); EVAL(v); })
C13_CASE(add_same_leaf, C13_DTYPES_ALL, 5, { auto a = make_operand<T>(shape_nd(d, 0), r, 0); auto v = view::add(a, a); EVAL(v); })
// binary tree whose RIGHT operand is itself a view: get_function_composition linearises it into a chain and the device result is
// wrong (known finding, findings/C13/right_operand_view_tree_*.replay); the search catalogue uses left-spine compositions only
C13_FINDING_CASE(mul_add_tree, C13_DTYPES_ALL, 9, { auto s = shape_nd(d, 0); auto a = make_operand<T>(s, r, 0); auto b = make_operand<T>(broadcast_partner(s, d, 5), r, 0); auto c = make_operand<T>(broadcast_partner(s, d, 7), r, 0);
    auto x = view::add(a, b); auto y = view::subtract(c, a); auto v = view::multiply(x, y); EVAL(v); })
C13_CASE(add_mul_chain, C13_DTYPES_ALL, 9, { auto s = shape_nd(d, 0); auto a = make_operand<T>(s, r, 0); auto b = make_operand<T>(broadcast_partner(s, d, 5), r, 0); auto c = make_operand<T>(broadcast_partner(s, d, 7), r, 0);
    auto x = view::add(a, b); auto y = view::multiply(x, c); auto v = view::subtract(y, a); EVAL(v); })
C13_CASE(relu_sub_div, C13_DTYPES_FLOAT, 7, { auto s = shape_nd(d, 0); auto a = make_operand<T>(s, r, 1); auto b = make_operand<T>(broadcast_partner(s, d, 5), r, 2); auto x = view::divide(a, b); auto y = view::subtract(x, (T)0.25); auto v = view::relu(y); EVAL(v); })

} // namespace c13
