// catalogue group F: operand kinds other than dynamic-shape/dynamic-buffer: compile-time shape (cs_fb), fixed rank (fs_fb / fs_db),
// bounded rank and size (hs_hb). The host side of the contexts sees different shape / dim types (constants, arrays, static vectors).
#include "pipes.hpp"
#include "nmtools/utility/cast.hpp"
#include "nmtools/array/view/ufuncs/add.hpp"
#include "nmtools/array/view/ufuncs/multiply.hpp"
#include "nmtools/array/view/ufuncs/subtract.hpp"
#include "nmtools/array/view/ufuncs/tanh.hpp"
#include "nmtools/array/view/activations/relu.hpp"
#include "nmtools/array/view/flip.hpp"
#include "nmtools/array/view/flatten.hpp"
#include "nmtools/array/view/reshape.hpp"
#include "nmtools/array/view/tile.hpp"
#include "nmtools/array/view/concatenate.hpp"
#include "nmtools/array/functional/tile.hpp"

namespace c13 {
using namespace nmtools::literals;

using cs232_shape_t = nmtools_tuple<meta::ct<(size_t)2>, meta::ct<(size_t)3>, meta::ct<(size_t)2>>;
template <class T> using cs232_t = na::ndarray_t<nmtools_array<T, 12>, cs232_shape_t>;
template <class T> using cs4_t = na::ndarray_t<nmtools_array<T, 4>, decltype(nmtools_tuple{4_ct})>;
template <class T> using fs_fb_t = na::ndarray_t<nmtools_array<T, 12>, nmtools_array<size_t, 3>>;
template <class T> using fs_db_t = na::ndarray_t<nmtools_list<T>, nmtools_array<size_t, 2>>;
template <class T> using hs_hb_t = na::ndarray_t<na::static_vector<T, 24>, na::static_vector<size_t, 3>>;

template <class A, class T> void fill(A& a, Rng& r, int style) { T* p = nm::data(a); size_t n = (size_t)nm::size(a); for (size_t i = 0; i < n; i++) p[i] = draw_value<T>(r, style); }
// fixed-buffer kinds hold 12 elements: a seeded rank-3 factorisation
inline Shape twelve(const std::vector<long>& d, size_t off) { static const size_t t[][3] = {{2, 3, 2}, {3, 2, 2}, {2, 2, 3}, {4, 3, 1}, {1, 4, 3}, {6, 2, 1}, {12, 1, 1}, {1, 1, 12}}; auto& x = t[dim_at(d, off, 0, 7)]; return {x[0], x[1], x[2]}; }

C13_CASE(fs_fb_subtract_scalar, C13_DTYPES_ALL, 2, { fs_fb_t<T> a{}; a.resize(twelve(d, 0)); fill<decltype(a), T>(a, r, 0); auto v = view::subtract(a, (T)3); EVAL(v); })
C13_CASE(fs_db_relu_add, C13_DTYPES_ALL, 4, { fs_db_t<T> a{}; a.resize(Shape{(size_t)dim_at(d, 0, 1, 6), (size_t)dim_at(d, 1, 1, 6)}); fill<decltype(a), T>(a, r, 0); fs_db_t<T> b{}; b.resize(Shape{1, (size_t)dim_at(d, 1, 1, 6)}); fill<decltype(b), T>(b, r, 0);
    auto x = view::add(a, b); auto v = view::relu(x); EVAL(v); })
C13_CASE(hs_hb_add, C13_DTYPES_ALL, 6, { auto s = shape_nd(d, 0, 3); while (prod(s) > 24) { for (auto& e : s) if (e > 1) { e--; break; } } hs_hb_t<T> a{}; a.resize(s); fill<decltype(a), T>(a, r, 0); hs_hb_t<T> b{}; b.resize(s); fill<decltype(b), T>(b, r, 0); auto v = view::add(a, b); EVAL(v); })
C13_CASE(hs_hb_concatenate, C13_DTYPES_ALL, 6, { auto s = shape_nd(d, 0, 2); while (prod(s) > 12) { for (auto& e : s) if (e > 1) { e--; break; } } hs_hb_t<T> a{}; a.resize(s); fill<decltype(a), T>(a, r, 0); hs_hb_t<T> b{}; b.resize(s); fill<decltype(b), T>(b, r, 0); int axis = (int)dim_at(d, 5, 0, (long)s.size() - 1); auto v = view::concatenate(a, b, axis); EVAL(v); })

template <class T> using ds_hb_t = na::ndarray_t<na::static_vector<T, 24>, nmtools_list<size_t>>;
template <class T> using hs_db_t = na::ndarray_t<nmtools_list<T>, na::static_vector<size_t, 3>>;
template <class T> using ls_db_t = na::ndarray_t<nmtools_list<T>, nmtools_array<nm::clipped_size_t<6>, 2>>;
inline Shape small_shape(const std::vector<long>& d, size_t off, size_t maxrank, size_t cap) { auto s = shape_nd(d, off, (long)maxrank); while (prod(s) > cap) { for (auto& e : s) if (e > 1) { e--; break; } } return s; }

C13_CASE(ds_hb_multiply_broadcast, C13_DTYPES_ALL, 8, { auto s = small_shape(d, 0, 3, 24); ds_hb_t<T> a{}; a.resize(s); fill<decltype(a), T>(a, r, 0); auto sb = broadcast_partner(s, d, 5); ds_hb_t<T> b{}; b.resize(sb); fill<decltype(b), T>(b, r, 0); auto v = view::multiply(a, b); EVAL(v); })
C13_CASE(hs_db_flip, C13_DTYPES_ALL, 7, { auto s = shape_nd(d, 0, 3); hs_db_t<T> a{}; a.resize(s); fill<decltype(a), T>(a, r, 0); int axis = (int)dim_at(d, 5, 0, (long)s.size() - 1); auto v = view::flip(a, axis); EVAL(v); })
C13_CASE(hs_hb_reduce_add, C13_DTYPES_ALL, 7, { auto s = small_shape(d, 0, 3, 24); hs_hb_t<T> a{}; a.resize(s); fill<decltype(a), T>(a, r, 0); int axis = (int)dim_at(d, 5, 0, (long)s.size() - 1); auto v = view::reduce_add(a, axis); EVAL(v); })

} // namespace c13
