// catalogue group E: the unary ufunc / activation families the device test lists name (one macro each), float dtypes
#include "pipes.hpp"
#include "nmtools/array/view/ufuncs/exp.hpp"
#include "nmtools/array/view/ufuncs/log.hpp"
#include "nmtools/array/view/ufuncs/sqrt.hpp"
#include "nmtools/array/view/ufuncs/sin.hpp"
#include "nmtools/array/view/ufuncs/cos.hpp"
#include "nmtools/array/view/ufuncs/fabs.hpp"
#include "nmtools/array/view/ufuncs/negative.hpp"
#include "nmtools/array/view/ufuncs/floor.hpp"
#include "nmtools/array/view/ufuncs/reciprocal.hpp"
#include "nmtools/array/view/ufuncs/arctan.hpp"
#include "nmtools/array/view/ufuncs/sinh.hpp"
#include "nmtools/array/view/ufuncs/log1p.hpp"
#include "nmtools/array/view/activations/celu.hpp"
#include "nmtools/array/view/activations/elu.hpp"
#include "nmtools/array/view/activations/hardshrink.hpp"
#include "nmtools/array/view/activations/hardswish.hpp"
#include "nmtools/array/view/activations/hardtanh.hpp"
#include "nmtools/array/view/activations/leaky_relu.hpp"
#include "nmtools/array/view/activations/log_sigmoid.hpp"
#include "nmtools/array/view/activations/mish.hpp"
#include "nmtools/array/view/activations/prelu.hpp"
#include "nmtools/array/view/activations/relu6.hpp"
#include "nmtools/array/view/activations/selu.hpp"
#include "nmtools/array/view/activations/silu.hpp"
#include "nmtools/array/view/activations/softplus.hpp"
#include "nmtools/array/view/activations/softshrink.hpp"
#include "nmtools/array/view/activations/softsign.hpp"
#include "nmtools/array/view/activations/tanhshrink.hpp"

namespace c13 {

#define UNARY(NAME, STYLE) C13_CASE(NAME, C13_DTYPES_FLOAT, 5, { auto a = make_operand<T>(shape_nd(d, 0), r, STYLE); auto v = view::NAME(a); EVAL(v); })

UNARY(exp, 1) UNARY(log, 2) UNARY(sqrt, 2) UNARY(sin, 1) UNARY(cos, 1) UNARY(fabs, 1) UNARY(negative, 1) UNARY(floor, 1) UNARY(reciprocal, 2)
UNARY(arctan, 1) UNARY(sinh, 1) UNARY(log1p, 2)
UNARY(elu, 1) UNARY(hardshrink, 1) UNARY(hardswish, 1) UNARY(hardtanh, 1) UNARY(leaky_relu, 1) UNARY(log_sigmoid, 1) UNARY(mish, 1)
UNARY(prelu, 1) UNARY(relu6, 1) UNARY(silu, 1) UNARY(softplus, 1) UNARY(softshrink, 1) UNARY(softsign, 1) UNARY(tanhshrink, 1)

} // namespace c13
