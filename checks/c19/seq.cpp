// Sequence containers: utl::vector, utl::static_vector, nmtools::small_vector (over STL parts and over utl parts).
// Reference model: std::vector<T>, plus "refuse and leave unchanged beyond Capacity" for static_vector.
#include "common.hpp"
#include <vector>
#include <variant>
// stl.hpp first: the default small_vector parts are then std::variant / utl::static_vector / std::vector,
// exactly as in the baseline build
#include "nmtools/stl.hpp"
#include "nmtools/utility/small_vector.hpp"

namespace c19 {
namespace utl = nmtools::utl;

enum Kind { HEAP, STATIC, SMALL };

template <class C, class = void> struct has_member_begin : std::false_type {};
template <class C> struct has_member_begin<C, std::void_t<decltype(std::declval<C&>().begin())>> : std::true_type {};
template <class C> auto seq_begin(C& c) { if constexpr (has_member_begin<C>::value) return c.begin(); else return begin(c); }
template <class C> auto seq_end(C& c) { if constexpr (has_member_begin<C>::value) return c.end(); else return end(c); }
// the free (ADL) begin / end / size functions some containers provide in addition to the members
template <class C, class = void> struct has_adl_range : std::false_type {};
template <class C> struct has_adl_range<C, std::void_t<decltype(begin(std::declval<C&>())), decltype(end(std::declval<C&>())), decltype(size(std::declval<const C&>()))>> : std::true_type {};

template <class R, class E, long CAP, Kind KIND>
struct Ad {
    using real = R; using elem = E;
    static constexpr long cap = CAP;      // -1: unbounded
    static constexpr Kind kind = KIND;
    static E val(long k) { if constexpr (std::is_floating_point<E>::value) return (E)k + (E)0.25; else return (E)k; }
};

template <class A>
struct SeqTarget : Target {
    using R = typename A::real; using E = typename A::elem; using M = std::vector<E>;
    std::string nm;
    long max_sized;   // largest n for sized construction / resize argument range
    explicit SeqTarget(const std::string& n, long ms) : nm(n), max_sized(ms) { static_assert(sizeof(R) <= SLOTB, "slot too small"); }
    std::string name() const override { return nm; }

    void gen_steps(Plan& p, Rng& r, const std::string& tier) override {
        gen_history(p, r, tier, {"ctor_default", "ctor_sized", "ctor_var", "copy", "assign", "push_back", "resize", "write", "read", "iterate", "destroy"},
                    {3, 3, 2, 3, 4, 8, 8, 6, 2, 1, 2}, 4);
    }

    // --- execution -----------------------------------------------------------------------------
    Env* env = nullptr;
    M model[NOBJ];
    long nobj = 1;
    R* obj(long i) { return reinterpret_cast<R*>(env->slots.at((size_t)i)); }
    bool live(long i) { return env->slots.live[i]; }

    static bool refuses_resize(long n) { return A::cap >= 0 && n > A::cap; }

    template <class... V> void construct(long o, V... v) { Sut s; new (env->slots.at((size_t)o)) R(v...); env->slots.live[o] = true; }
    void destroy(long o) { { Sut s; obj(o)->~R(); } env->slots.kill((size_t)o); model[o].clear(); }

    void run(const Plan& p, Env& e) override {
        env = &e; cur_env() = &e;
        nobj = p.geti("nobj", 1); if (nobj < 1) nobj = 1; if (nobj > (long)NOBJ) nobj = NOBJ;
        for (auto& m : model) m.clear();
        size_t k = 0;
        for (auto& st : p.steps) {
            env->begin_step(st.op);
            bool applied = apply(st);
            if (applied) { check_all(k); env->heap_check(); }
            if (verdict().failed()) break;
            k++;
        }
        // end of run: destroy every live object, then the heap must be empty
        if (!verdict().failed()) {
            for (long o = 0; o < (long)NOBJ; o++) if (live(o)) { env->begin_step("final_destroy"); destroy(o); }
            env->begin_step("end"); env->heap_check();
            env->final_leak_check();
        }
    }

    bool apply(const Step& st) {
        long o = st.arg(0) % nobj, src = st.arg(1) % nobj, n = st.arg(2);
        if (o < 0) o = 0; if (src < 0) src = 0; if (n < 0) n = 0;
        const std::string& op = st.op;
        std::string on = "o" + std::to_string(o);
        if (op == "ctor_default") {
            if (live(o)) return false;
            construct(o); model[o] = M();
            env->applied(op, on, true); return true;
        }
        if (op == "ctor_sized") {
            if (live(o)) return false;
            long m = n % (max_sized + 1);
            construct(o, (typename R::size_type)m); model[o] = M((size_t)m);
            env->applied(op, on + " n=" + std::to_string(m), true);
            if (m == 0) probe("seq.sized_zero");
            return true;
        }
        if (op == "ctor_var") {
            if (live(o)) return false;
            long k = 2 + n % 3;
            if (A::cap >= 0 && k > A::cap) k = A::cap;
            if (k < 2) return false;
            E v[4]; for (long i = 0; i < k; i++) v[i] = A::val(env->next_value());
            bool ok = false;
            if constexpr (A::cap < 0 || A::cap >= 2) if (k == 2) { construct(o, v[0], v[1]); ok = true; }
            if constexpr (A::cap < 0 || A::cap >= 3) if (k == 3) { construct(o, v[0], v[1], v[2]); ok = true; }
            if constexpr (A::cap < 0 || A::cap >= 4) if (k == 4) { construct(o, v[0], v[1], v[2], v[3]); ok = true; }
            if (!ok) return false;
            model[o] = M(v, v + k);
            env->applied(op, on + " k=" + std::to_string(k), true); return true;
        }
        if (op == "copy") {
            if (live(o) || !live(src) || src == o) return false;
            { Sut s; new (env->slots.at((size_t)o)) R(*obj(src)); } env->slots.live[o] = true;
            model[o] = model[src];
            env->applied(op, on + "<-o" + std::to_string(src) + " n=" + std::to_string(model[src].size()), true);
            env->interesting = true; return true;
        }
        if (!live(o)) return false;
        if (op == "assign") {
            if (!live(src)) return false;
            { Sut s; *obj(o) = *obj(src); }
            model[o] = M(model[src]);
            env->applied(op, on + "<-o" + std::to_string(src) + " n=" + std::to_string(model[src].size()), true);
            env->interesting = true; if (src == o) probe("seq.self_assign");
            return true;
        }
        if (op == "push_back") {
            E v = A::val(env->next_value());
            bool refused = A::cap >= 0 && (long)model[o].size() >= A::cap;
            { Sut s; obj(o)->push_back(v); }
            if (!refused) model[o].push_back(v); else { probe("seq.refused.push_back"); env->interesting = true; }
            env->applied(op, on + (refused ? " refused" : " n=" + std::to_string(model[o].size())), true);
            if (model[o].size() > 4) env->interesting = true;
            return true;
        }
        if (op == "resize") {
            long range = A::cap >= 0 ? A::cap + 3 : max_sized + 3;
            long m = n % range;
            bool refused = refuses_resize(m);
            long before = (long)model[o].size();
            { Sut s; obj(o)->resize((typename R::size_type)m); }
            if (!refused) model[o].resize((size_t)m); else { probe("seq.refused.resize"); env->interesting = true; }
            if (!refused && m > before) { probe("seq.grow"); env->interesting = true; }
            if (!refused && m < before) probe("seq.shrink");
            env->applied(op, on + " n=" + std::to_string(m) + (refused ? " refused" : ""), true);
            return true;
        }
        if (op == "write") {
            if (model[o].empty()) return false;
            long i = n % (long)model[o].size();
            E v = A::val(env->next_value());
            { Sut s; if (n & 1) (*obj(o))[(typename R::size_type)i] = v; else obj(o)->at((typename R::size_type)i) = v; }
            model[o][(size_t)i] = v;
            env->applied(op, on + " i=" + std::to_string(i), true); return true;
        }
        if (op == "read") {
            if (model[o].empty()) return false;
            long i = n % (long)model[o].size();
            E got; { Sut s; got = obj(o)->at((typename R::size_type)i); }
            env->applied(op, on + " i=" + std::to_string(i), false);
            if (!bits_equal(got, model[o][(size_t)i]))
                env->violation("CONTENT", nm + " o" + std::to_string(o) + " at(" + std::to_string(i) + ") = " + show(got) + ", std::vector holds " + show(model[o][(size_t)i]));
            return true;
        }
        if (op == "iterate") {
            std::vector<E> seen;
            { Sut s; SimGuard g; R& r = *obj(o); for (auto it = seq_begin(r); it != seq_end(r); ++it) seen.push_back(*it); }
            env->applied(op, on, false);
            if constexpr (has_adl_range<R>::value) {   // free functions must delimit the same range
                R& r = *obj(o); const R& cr = r; bool ok; size_t fs;
                { Sut s; ok = begin(r) == r.data() && end(r) == r.data() + r.size() && begin(cr) == cr.data() && end(cr) == cr.data() + cr.size(); fs = (size_t)size(cr); }
                if (!ok || fs != model[o].size()) { env->violation("SPAN", nm + " free begin()/end()/size() disagree with data()/size() (size " + std::to_string(fs) + ", expected " + std::to_string(model[o].size()) + ")"); return true; }
                probe("seq.adl_range_checked");
            }
            if (seen.size() != model[o].size()) { env->violation("SPAN", nm + " begin..end yields " + std::to_string(seen.size()) + " elements, size should be " + std::to_string(model[o].size())); return true; }
            for (size_t i = 0; i < seen.size(); i++) if (!bits_equal(seen[i], model[o][i])) {
                env->violation("CONTENT", nm + " iteration element " + std::to_string(i) + " = " + show(seen[i]) + ", std::vector holds " + show(model[o][i])); break; }
            return true;
        }
        if (op == "destroy") {
            destroy(o);
            env->applied(op, on, true); return true;
        }
        return false;
    }

    // every live object (not only the one touched) must equal its model and own its storage
    void check_all(size_t stepno) {
        if (verdict().failed()) return;
        const unsigned char* lo[NOBJ] = {}; const unsigned char* hi[NOBJ] = {};
        for (long o = 0; o < (long)NOBJ; o++) {
            if (!live(o)) continue;
            const R& r = *obj(o);
            const M& m = model[o];
            std::string who = nm + " o" + std::to_string(o) + " after step " + std::to_string(stepno) + " (" + env->last_op + ")";
            size_t sz; { Sut s; sz = (size_t)r.size(); }
            if (sz != m.size()) { env->violation("CONTENT", who + ": size() = " + std::to_string(sz) + ", std::vector has " + std::to_string(m.size())); return; }
            const E* d; { Sut s; d = r.data(); }
            const E* b; const E* en; { Sut s; b = seq_begin(r); en = seq_end(r); }
            if (b != d || en != d + sz) { env->violation("SPAN", who + ": begin()/end() do not delimit data()..data()+size()"); return; }
            if (sz > 0) {
                // storage must belong to this object: inside its slot, or inside one live heap block large enough
                bool in_slot = env->slots.inside((size_t)o, d, sz * sizeof(E));
                int blk = host_heap().block_of(d);
                bool in_heap = false;
                if (blk >= 0) {
                    auto& B = host_heap().blocks()[(size_t)blk];
                    size_t off = (size_t)((const unsigned char*)d - host_heap().base()) - B.off;
                    in_heap = B.live && off + sz * sizeof(E) <= B.req;
                }
                bool ok = A::kind == HEAP ? in_heap : A::kind == STATIC ? in_slot : (in_slot || in_heap);
                if (!ok) { env->violation("SPAN", who + ": [data(), data()+size()) is not inside storage owned by the object (" + host_heap().describe(d) + ", " + std::to_string(sz * sizeof(E)) + " bytes)"); return; }
                if (in_heap) probe("seq.storage.heap"); else probe("seq.storage.inline");
                for (size_t i = 0; i < sz; i++) {
                    E got; { Sut s; got = r[(typename R::size_type)i]; }
                    if (!bits_equal(got, m[i])) { env->violation("CONTENT", who + ": element " + std::to_string(i) + " = " + show(got) + ", std::vector holds " + show(m[i])); return; }
                }
                lo[o] = (const unsigned char*)d; hi[o] = lo[o] + sz * sizeof(E);
            }
        }
        for (long i = 0; i < (long)NOBJ; i++) for (long j = i + 1; j < (long)NOBJ; j++)
            if (lo[i] && lo[j] && lo[i] < hi[j] && lo[j] < hi[i]) { env->violation("ALIAS", nm + " o" + std::to_string(i) + " and o" + std::to_string(j) + " share storage after " + env->last_op); return; }
    }
};

// small_vector over the library's own parts (the configuration a no-STL build would use)
template <class T, auto N> using sv_t = utl::static_vector<T, N>;
template <class T> using uvec_t = utl::vector<T>;

#define SEQ(NAME, PRETTY, REAL, ELEM, CAP, KIND, MAXSIZED) \
    static SeqTarget<Ad<REAL, ELEM, CAP, KIND>> t_##NAME(PRETTY, MAXSIZED); static Registrar r_##NAME(&t_##NAME);

using vec_i = utl::vector<int>; using vec_d = utl::vector<double>;
using sv_i1 = utl::static_vector<int, 1>; using sv_i4 = utl::static_vector<int, 4>; using sv_i8 = utl::static_vector<int, 8>; using sv_d4 = utl::static_vector<double, 4>;
using smv_i2 = nmtools::small_vector<int, 2>; using smv_i4 = nmtools::small_vector<int, 4>; using smv_d4 = nmtools::small_vector<double, 4>;
using smv_u_i2 = nmtools::small_vector<int, 2, utl::either, sv_t, uvec_t>;
using smv_u_i4 = nmtools::small_vector<int, 4, utl::either, sv_t, uvec_t>;
using smv_u_d4 = nmtools::small_vector<double, 4, utl::either, sv_t, uvec_t>;

SEQ(vec_i, "utl::vector<int>", vec_i, int, -1, HEAP, 10)
SEQ(vec_d, "utl::vector<double>", vec_d, double, -1, HEAP, 10)
SEQ(sv_i1, "utl::static_vector<int,1>", sv_i1, int, 1, STATIC, 1)
SEQ(sv_i4, "utl::static_vector<int,4>", sv_i4, int, 4, STATIC, 4)
SEQ(sv_i8, "utl::static_vector<int,8>", sv_i8, int, 8, STATIC, 8)
SEQ(sv_d4, "utl::static_vector<double,4>", sv_d4, double, 4, STATIC, 4)
SEQ(smv_i2, "small_vector<int,2>", smv_i2, int, -1, SMALL, 6)
SEQ(smv_i4, "small_vector<int,4>", smv_i4, int, -1, SMALL, 8)
SEQ(smv_d4, "small_vector<double,4>", smv_d4, double, -1, SMALL, 8)
SEQ(smv_u_i2, "small_vector<int,2,utl>", smv_u_i2, int, -1, SMALL, 6)
SEQ(smv_u_i4, "small_vector<int,4,utl>", smv_u_i4, int, -1, SMALL, 8)
SEQ(smv_u_d4, "small_vector<double,4,utl>", smv_u_d4, double, -1, SMALL, 8)

} // namespace c19
