// Payload / element types for maybe, either and tuple histories, each with its std:: model counterpart.
#pragma once
#include <array>
#include <vector>
#include <string>
#include "common.hpp"
#include "nmtools/stl.hpp"

namespace c19 {
namespace utl = nmtools::utl;

// A non-trivial type that owns exactly one simheap block: losing a destructor is a leak the heap sees,
// a copy that shares the block is a double free, and an operation on an unconstructed object is reported
// deterministically (TRACKED_UNCONSTRUCTED) instead of crashing.
struct tracked {
    long* p;
    static long* alloc(long v) { long* q = (long*)sut_malloc(sizeof(long)); *q = v; return q; }
    bool valid() const {
        int b = host_heap().block_of(p);
        return b >= 0 && host_heap().blocks()[(size_t)b].live && (unsigned char*)p == host_heap().base() + host_heap().blocks()[(size_t)b].off;
    }
    static void bad(const char* what) { SimGuard g; cur_env()->violation("TRACKED_UNCONSTRUCTED", std::string(what) + " on an object that was never constructed (or already destroyed)"); }
    tracked() : p(alloc(0)) {}
    explicit tracked(long v) : p(alloc(v)) {}
    tracked(const tracked& o) : p(nullptr) { if (!o.valid()) { bad("copy-construction from"); p = alloc(-1); } else p = alloc(*o.p); }
    tracked& operator=(const tracked& o) {
        if (!valid()) { bad("assignment"); return *this; }
        if (!o.valid()) { bad("assignment from"); return *this; }
        *p = *o.p; return *this;
    }
    ~tracked() { if (!valid()) { bad("destructor"); return; } sut_free(p); p = nullptr; }
    long get() const { return valid() ? *p : -999; }
};

template <class T> struct Pay;
template <> struct Pay<int> {
    using model = int; static const char* nm() { return "int"; }
    static int make(long k) { return (int)k; }
    static model to_model(const int& v) { return v; }
};
template <> struct Pay<double> {
    using model = double; static const char* nm() { return "double"; }
    static double make(long k) { return (double)k + 0.25; }
    static model to_model(const double& v) { return v; }
};
template <> struct Pay<utl::array<int, 3>> {
    using model = std::array<int, 3>; static const char* nm() { return "utl::array<int,3>"; }
    static utl::array<int, 3> make(long k) { return {{(int)k, (int)k + 1000, (int)k + 2000}}; }
    static model to_model(const utl::array<int, 3>& v) { return {{v[0], v[1], v[2]}}; }
};
template <> struct Pay<utl::vector<int>> {
    using model = std::vector<int>; static const char* nm() { return "utl::vector<int>"; }
    static utl::vector<int> make(long k) { utl::vector<int> v; for (long i = 0; i < k % 7; i++) v.push_back((int)(k * 10 + i)); return v; }
    static model to_model(const utl::vector<int>& v) {
        SimGuard g; model m; size_t n = v.size();
        if (n > 64) { m.assign(1, -12345); return m; }   // corrupted object: never equal to a model value
        for (size_t i = 0; i < n; i++) m.push_back(v[i]); return m;
    }
};
template <> struct Pay<utl::static_vector<int, 4>> {
    using model = std::vector<int>; static const char* nm() { return "utl::static_vector<int,4>"; }
    static utl::static_vector<int, 4> make(long k) { utl::static_vector<int, 4> v; for (long i = 0; i < k % 5; i++) v.push_back((int)(k * 10 + i)); return v; }
    static model to_model(const utl::static_vector<int, 4>& v) {
        SimGuard g; model m; size_t n = v.size();
        if (n > 4) { m.assign(1, -12345); return m; }
        for (size_t i = 0; i < n; i++) m.push_back(v[(int)i]); return m;
    }
};
template <> struct Pay<tracked> {
    using model = long; static const char* nm() { return "tracked"; }
    static tracked make(long k) { return tracked(k); }
    static model to_model(const tracked& v) { return v.get(); }
};

template <class M> inline std::string showm(const M& m) {
    if constexpr (std::is_arithmetic<M>::value) return show(m);
    else { std::string s = "{"; for (auto& x : m) s += std::to_string(x) + ","; return s + "}"; }
}

} // namespace c19
