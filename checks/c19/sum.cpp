// utl::maybe<T> against std::optional, utl::either<L,R> against std::variant.
#include "payload.hpp"
#include <optional>
#include <variant>
#include "nmtools/utility/get_if.hpp"
#include "nmtools/utility/utl/get_if.hpp"

namespace c19 {

template <class T>
struct MaybeTarget : Target {
    using R = utl::maybe<T>; using P = Pay<T>; using MV = typename P::model; using M = std::optional<MV>;
    std::string nm;
    MaybeTarget() : nm(std::string("utl::maybe<") + P::nm() + ">") { static_assert(sizeof(R) <= SLOTB); }
    std::string name() const override { return nm; }
    void gen_steps(Plan& p, Rng& r, const std::string& tier) override {
        gen_history(p, r, tier, {"ctor_empty", "ctor_nothing", "ctor_value", "copy", "assign", "assign_value", "assign_nothing", "write", "read", "destroy"},
                    {2, 1, 4, 3, 6, 6, 3, 3, 2, 2}, 4);
    }
    Env* env = nullptr; M model[NOBJ]; long nobj = 1;
    R* obj(long i) { return reinterpret_cast<R*>(env->slots.at((size_t)i)); }
    bool live(long i) { return env->slots.live[i]; }
    void destroy(long o) { { Sut s; obj(o)->~R(); } env->slots.kill((size_t)o); model[o].reset(); }

    void run(const Plan& p, Env& e) override {
        env = &e; cur_env() = &e;
        nobj = p.geti("nobj", 1); if (nobj < 1) nobj = 1; if (nobj > (long)NOBJ) nobj = NOBJ;
        for (auto& m : model) m.reset();
        size_t k = 0;
        for (auto& st : p.steps) {
            env->begin_step(st.op);
            bool applied = apply(st);
            if (applied) { check_all(k); env->heap_check(); }
            if (verdict().failed()) break;
            k++;
        }
        if (!verdict().failed()) {
            for (long o = 0; o < (long)NOBJ; o++) if (live(o)) { env->begin_step("final_destroy"); destroy(o); }
            env->begin_step("end"); env->heap_check(); env->final_leak_check();
        }
    }
    bool apply(const Step& st) {
        long o = st.arg(0) % nobj, src = st.arg(1) % nobj; if (o < 0) o = 0; if (src < 0) src = 0;
        const std::string& op = st.op; std::string on = "o" + std::to_string(o);
        if (op == "ctor_empty") { if (live(o)) return false; { Sut s; new (obj(o)) R(); } env->slots.live[o] = true; model[o].reset(); env->applied(op, on, true); return true; }
        if (op == "ctor_nothing") { if (live(o)) return false; { Sut s; new (obj(o)) R(utl::nothing); } env->slots.live[o] = true; model[o].reset(); env->applied(op, on, true); return true; }
        if (op == "ctor_value") {
            if (live(o)) return false; long k = env->next_value();
            { Sut s; T v = P::make(k); new (obj(o)) R(v); } env->slots.live[o] = true;
            { T v = P::make(k); model[o] = P::to_model(v); }
            env->applied(op, on, true); return true;
        }
        if (op == "copy") {
            if (live(o) || !live(src) || src == o) return false;
            { Sut s; new (obj(o)) R(*obj(src)); } env->slots.live[o] = true; model[o] = model[src];
            env->applied(op, on + "<-o" + std::to_string(src) + (model[src] ? " some" : " none"), true); env->interesting = true; return true;
        }
        if (!live(o)) return false;
        if (op == "assign") {
            if (!live(src)) return false;
            std::string tr = std::string(model[o] ? "some" : "none") + "<-" + (model[src] ? "some" : "none");
            { Sut s; *obj(o) = *obj(src); } { M tmp = model[src]; model[o] = tmp; }
            env->applied(op, on + "<-o" + std::to_string(src) + " " + tr, true); env->interesting = true; probe("maybe.assign." + tr); return true;
        }
        if (op == "assign_value") {
            long k = env->next_value(); bool had = model[o].has_value();
            { Sut s; T v = P::make(k); *obj(o) = v; } { T v = P::make(k); model[o] = P::to_model(v); }
            env->applied(op, on + (had ? " some" : " none"), true); if (!had) env->interesting = true; return true;
        }
        if (op == "assign_nothing") {
            bool had = model[o].has_value();
            { Sut s; *obj(o) = utl::nothing; } model[o].reset();
            env->applied(op, on + (had ? " some" : " none"), true); if (had) env->interesting = true; return true;
        }
        if (op == "write") {
            if (!model[o]) return false; long k = env->next_value();
            { Sut s; T v = P::make(k); if (st.arg(2) & 1) **obj(o) = v; else obj(o)->value() = v; } { T v = P::make(k); model[o] = P::to_model(v); }
            env->applied(op, on, true); return true;
        }
        if (op == "read") {
            env->applied(op, on, false);
            const R& r = *obj(o); bool hv; { Sut s; hv = static_cast<bool>(r); }
            if (hv != model[o].has_value()) env->violation("CONTENT", nm + " o" + std::to_string(o) + ": operator bool = " + std::to_string(hv) + ", std::optional says " + std::to_string(model[o].has_value()));
            return true;
        }
        if (op == "destroy") { destroy(o); env->applied(op, on, true); return true; }
        return false;
    }
    void check_all(size_t stepno) {
        if (verdict().failed()) return;
        for (long o = 0; o < (long)NOBJ; o++) {
            if (!live(o)) continue;
            const R& r = *obj(o);
            std::string who = nm + " o" + std::to_string(o) + " after step " + std::to_string(stepno) + " (" + env->cur_op + ")";
            bool hv; { Sut s; hv = r.has_value(); }
            if (hv != model[o].has_value()) { env->violation("CONTENT", who + ": has_value() = " + std::to_string(hv) + ", std::optional says " + std::to_string(model[o].has_value())); return; }
            if (hv) {
                MV got; { Sut s; got = P::to_model(*r); }
                if (verdict().failed()) return;
                if (!(got == *model[o])) { env->violation("CONTENT", who + ": value = " + showm(got) + ", std::optional holds " + showm(*model[o])); return; }
            }
        }
    }
};

template <class L, class Rt>
struct EitherTarget : Target {
    using R = utl::either<L, Rt>; using PL = Pay<L>; using PR = Pay<Rt>;
    using ML = typename PL::model; using MR = typename PR::model;
    struct M { int idx = 0; ML l{}; MR r{}; };
    std::string nm;
    EitherTarget() : nm(std::string("utl::either<") + PL::nm() + "," + PR::nm() + ">") { static_assert(sizeof(R) <= SLOTB); }
    std::string name() const override { return nm; }
    void gen_steps(Plan& p, Rng& r, const std::string& tier) override {
        gen_history(p, r, tier, {"ctor_default", "ctor_left", "ctor_right", "copy", "assign", "assign_left", "assign_right", "write", "read", "destroy"},
                    {2, 3, 3, 3, 6, 5, 5, 3, 2, 2}, 4);
    }
    Env* env = nullptr; M model[NOBJ]; long nobj = 1;
    R* obj(long i) { return reinterpret_cast<R*>(env->slots.at((size_t)i)); }
    bool live(long i) { return env->slots.live[i]; }
    void destroy(long o) { { Sut s; obj(o)->~R(); } env->slots.kill((size_t)o); model[o] = M(); }
    static ML left_model(long k) { L v = PL::make(k); return PL::to_model(v); }
    static MR right_model(long k) { Rt v = PR::make(k); return PR::to_model(v); }

    void run(const Plan& p, Env& e) override {
        env = &e; cur_env() = &e;
        nobj = p.geti("nobj", 1); if (nobj < 1) nobj = 1; if (nobj > (long)NOBJ) nobj = NOBJ;
        for (auto& m : model) m = M();
        size_t k = 0;
        for (auto& st : p.steps) {
            env->begin_step(st.op);
            bool applied = apply(st);
            if (applied) { check_all(k); env->heap_check(); }
            if (verdict().failed()) break;
            k++;
        }
        if (!verdict().failed()) {
            for (long o = 0; o < (long)NOBJ; o++) if (live(o)) { env->begin_step("final_destroy"); destroy(o); }
            env->begin_step("end"); env->heap_check(); env->final_leak_check();
        }
    }
    bool apply(const Step& st) {
        long o = st.arg(0) % nobj, src = st.arg(1) % nobj; if (o < 0) o = 0; if (src < 0) src = 0;
        const std::string& op = st.op; std::string on = "o" + std::to_string(o);
        auto lr = [](int i) { return i == 0 ? "L" : "R"; };
        if (op == "ctor_default") {
            if (live(o)) return false; { Sut s; new (obj(o)) R(); } env->slots.live[o] = true;
            model[o] = M(); { L v{}; model[o].l = PL::to_model(v); }
            env->applied(op, on, true); return true;
        }
        if (op == "ctor_left") {
            if (live(o)) return false; long k = env->next_value();
            { Sut s; L v = PL::make(k); new (obj(o)) R(v); } env->slots.live[o] = true; model[o] = M(); model[o].idx = 0; model[o].l = left_model(k);
            env->applied(op, on, true); return true;
        }
        if (op == "ctor_right") {
            if (live(o)) return false; long k = env->next_value();
            { Sut s; Rt v = PR::make(k); new (obj(o)) R(v); } env->slots.live[o] = true; model[o] = M(); model[o].idx = 1; model[o].r = right_model(k);
            env->applied(op, on, true); return true;
        }
        if (op == "copy") {
            if (live(o) || !live(src) || src == o) return false;
            { Sut s; new (obj(o)) R(*obj(src)); } env->slots.live[o] = true; model[o] = model[src];
            env->applied(op, on + "<-o" + std::to_string(src) + " " + lr(model[src].idx), true); env->interesting = true; return true;
        }
        if (!live(o)) return false;
        if (op == "assign") {
            if (!live(src)) return false;
            std::string tr = std::string(lr(model[o].idx)) + "<-" + lr(model[src].idx);
            { Sut s; *obj(o) = *obj(src); } { M tmp = model[src]; model[o] = tmp; }
            env->applied(op, on + "<-o" + std::to_string(src) + " " + tr, true); env->interesting = true; probe("either.assign." + tr); return true;
        }
        if (op == "assign_left") {
            long k = env->next_value(); int was = model[o].idx;
            { Sut s; L v = PL::make(k); *obj(o) = v; } model[o].idx = 0; model[o].l = left_model(k);
            env->applied(op, on + " was" + lr(was), true); if (was != 0) env->interesting = true; return true;
        }
        if (op == "assign_right") {
            long k = env->next_value(); int was = model[o].idx;
            { Sut s; Rt v = PR::make(k); *obj(o) = v; } model[o].idx = 1; model[o].r = right_model(k);
            env->applied(op, on + " was" + lr(was), true); if (was != 1) env->interesting = true; return true;
        }
        if (op == "write") {   // through the pointer get_if hands out
            long k = env->next_value();
            if (model[o].idx == 0) {
                L* q; { Sut s; q = nmtools::get_if<L>(obj(o)); }
                if (!q) { env->violation("CONTENT", nm + ": get_if<left> is null while left is active"); return true; }
                { Sut s; L v = PL::make(k); *q = v; } model[o].l = left_model(k);
            } else {
                Rt* q; { Sut s; q = nmtools::get_if<Rt>(obj(o)); }
                if (!q) { env->violation("CONTENT", nm + ": get_if<right> is null while right is active"); return true; }
                { Sut s; Rt v = PR::make(k); *q = v; } model[o].r = right_model(k);
            }
            env->applied(op, on + " " + lr(model[o].idx), true); return true;
        }
        if (op == "read") { env->applied(op, on, false); return true; }
        if (op == "destroy") { destroy(o); env->applied(op, on, true); return true; }
        return false;
    }
    void check_all(size_t stepno) {
        if (verdict().failed()) return;
        for (long o = 0; o < (long)NOBJ; o++) {
            if (!live(o)) continue;
            const R& r = *obj(o);
            std::string who = nm + " o" + std::to_string(o) + " after step " + std::to_string(stepno) + " (" + env->cur_op + ")";
            int idx; { Sut s; idx = (int)r.index(); }
            if (idx != model[o].idx) { env->violation("CONTENT", who + ": index() = " + std::to_string(idx) + ", std::variant says " + std::to_string(model[o].idx)); return; }
            const L* pl; const Rt* pr; { Sut s; pl = r.template get_if<L>(); pr = r.template get_if<Rt>(); }
            if ((pl != nullptr) != (idx == 0) || (pr != nullptr) != (idx == 1)) { env->violation("CONTENT", who + ": get_if disagrees with index()"); return; }
            if (idx == 0) {
                ML got; { Sut s; got = PL::to_model(*pl); }
                if (verdict().failed()) return;
                if (!(got == model[o].l)) { env->violation("CONTENT", who + ": left = " + showm(got) + ", std::variant holds " + showm(model[o].l)); return; }
            } else {
                MR got; { Sut s; got = PR::to_model(*pr); }
                if (verdict().failed()) return;
                if (!(got == model[o].r)) { env->violation("CONTENT", who + ": right = " + showm(got) + ", std::variant holds " + showm(model[o].r)); return; }
            }
        }
    }
};

#define REG(T, NAME) static T t_##NAME; static Registrar r_##NAME(&t_##NAME);
using arr3 = utl::array<int, 3>; using uvec = utl::vector<int>; using sv4 = utl::static_vector<int, 4>;
REG(MaybeTarget<int>, m_int)
REG(MaybeTarget<double>, m_double)
REG(MaybeTarget<arr3>, m_arr3)
REG(MaybeTarget<uvec>, m_uvec)
REG(MaybeTarget<tracked>, m_tracked)
using e_id = EitherTarget<int, double>; REG(e_id, e_int_double)
using e_ad = EitherTarget<arr3, double>; REG(e_ad, e_arr_double)
using e_vi = EitherTarget<uvec, int>; REG(e_vi, e_uvec_int)
using e_ti = EitherTarget<tracked, int>; REG(e_ti, e_tracked_int)
using e_it = EitherTarget<int, tracked>; REG(e_it, e_int_tracked)
using e_sv = EitherTarget<sv4, uvec>; REG(e_sv, e_sv_uvec)

} // namespace c19
