// C19 engine: picks a container configuration per run, draws the heap behaviour and the history,
// interprets it, and reports per-run signature / non-triviality for the evidence.
#include "common.hpp"
#include "../../sim/runner.hpp"

namespace c19 {
std::vector<Target*>& registry() { static std::vector<Target*> r; return r; }

struct C19Engine : sim::Engine {
    Env env;
    std::string only;   // optional target filter (substring)
    const char* property() const override { return "C19"; }
    const char* name() const override { return "containers"; }
    std::vector<Target*> candidates() {
        std::vector<Target*> c;
        for (auto t : registry()) if (only.empty() || t->name().find(only) != std::string::npos) c.push_back(t);
        return c;
    }
    Plan generate(uint64_t run_seed, const std::string& tier) override {
        Rng root(run_seed);
        Plan p;
        auto c = candidates();
        Rng pr = root.derive("plan");
        Target* t = c[pr.below(c.size())];
        p.set("property", "C19"); p.set("target", t->name());
        gen_heapcfg(p, root.derive("heap"));
        t->gen_steps(p, pr, tier);
        return p;
    }
    void execute(const Plan& p) override {
        Target* t = nullptr;
        for (auto x : registry()) if (x->name() == p.get("target")) t = x;
        if (!t) { fail("INFRA", "unknown target " + p.get("target")); return; }
        env.reset(p);
        t->run(p, env);
        sig = fnv1a(env.target + "|" + env.sigstr);
        nontrivial = env.changing >= 3 && env.interesting;
        ticks = env.ticks;
        probe("runs." + env.target);
        probe(std::string("heap.policy.") + HeapCfg::reuse_name((int)p.geti("heap.reuse")));
        probe("heap.mallocs", host_heap().n_malloc()); probe("heap.frees", host_heap().n_free());
    }
};
} // namespace c19

int main(int argc, char** argv) {
    c19::C19Engine e;
    for (int i = 1; i + 1 < argc; i++) if (std::string(argv[i]) == "--target") e.only = argv[i + 1];
    if (argc > 1 && std::string(argv[1]) == "--list") { for (auto t : c19::registry()) printf("%s\n", t->name().c_str()); return 0; }
    return sim::sim_main(argc, argv, e);
}
