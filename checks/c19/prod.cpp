// utl::array<T,N> against std::array, utl::tuple / utl::tuplev2 against std::tuple.
#include "payload.hpp"
#include <array>
#include <tuple>

namespace c19 {

template <class E, size_t N>
struct ArrayTarget : Target {
    using R = utl::array<E, N>; using M = std::array<E, N>;
    std::string nm;
    ArrayTarget() : nm(std::string("utl::array<") + Pay<E>::nm() + "," + std::to_string(N) + ">") { static_assert(sizeof(R) <= SLOTB); }
    std::string name() const override { return nm; }
    void gen_steps(Plan& p, Rng& r, const std::string& tier) override {
        gen_history(p, r, tier, {"ctor_value", "ctor_values", "copy", "assign", "write", "read", "iterate", "destroy"}, {3, 3, 3, 6, 8, 2, 1, 2}, 3);
    }
    Env* env = nullptr; M model[NOBJ]; long nobj = 1;
    R* obj(long i) { return reinterpret_cast<R*>(env->slots.at((size_t)i)); }
    bool live(long i) { return env->slots.live[i]; }
    static E val(long k) { return Pay<E>::make(k); }

    void run(const Plan& p, Env& e) override {
        env = &e; cur_env() = &e;
        nobj = p.geti("nobj", 1); if (nobj < 1) nobj = 1; if (nobj > (long)NOBJ) nobj = NOBJ;
        size_t k = 0;
        for (auto& st : p.steps) {
            env->begin_step(st.op);
            if (apply(st)) { check_all(k); env->heap_check(); }
            if (verdict().failed()) break;
            k++;
        }
        if (!verdict().failed()) {
            for (long o = 0; o < (long)NOBJ; o++) if (live(o)) { obj(o)->~R(); env->slots.kill((size_t)o); }
            env->begin_step("end"); env->heap_check(); env->final_leak_check();
        }
    }
    template <size_t... I> void set_get(R& r, long i, E v, std::index_sequence<I...>) { ((i == (long)I ? (void)(utl::get<I>(r) = v) : (void)0), ...); }
    bool apply(const Step& st) {
        long o = st.arg(0) % nobj, src = st.arg(1) % nobj, n = st.arg(2); if (o < 0) o = 0; if (src < 0) src = 0; if (n < 0) n = 0;
        const std::string& op = st.op; std::string on = "o" + std::to_string(o);
        if (op == "ctor_value") { if (live(o)) return false; new (obj(o)) R{}; env->slots.live[o] = true; model[o] = M{}; env->applied(op, on, true); return true; }
        if (op == "ctor_values") {
            if (live(o)) return false;
            M m; for (size_t i = 0; i < N; i++) m[i] = val(env->next_value());
            if constexpr (N == 1) new (obj(o)) R{m[0]};
            else if constexpr (N == 3) new (obj(o)) R{m[0], m[1], m[2]};
            else if constexpr (N == 4) new (obj(o)) R{m[0], m[1], m[2], m[3]};
            env->slots.live[o] = true; model[o] = m; env->applied(op, on, true); return true;
        }
        if (op == "copy") {
            if (live(o) || !live(src) || src == o) return false;
            new (obj(o)) R(*obj(src)); env->slots.live[o] = true; model[o] = model[src];
            env->applied(op, on + "<-o" + std::to_string(src), true); env->interesting = true; return true;
        }
        if (!live(o)) return false;
        if (op == "assign") { if (!live(src)) return false; *obj(o) = *obj(src); model[o] = M(model[src]); env->applied(op, on + "<-o" + std::to_string(src), true); env->interesting = true; return true; }
        if (op == "write") {
            long i = n % (long)N; E v = val(env->next_value());
            switch (st.arg(2) / 4 % 3) { case 0: (*obj(o))[(int)i] = v; break; case 1: obj(o)->at((int)i) = v; break; default: set_get(*obj(o), i, v, std::make_index_sequence<N>{}); }
            model[o][(size_t)i] = v; env->applied(op, on + " i=" + std::to_string(i), true); if (i == (long)N - 1) env->interesting = true; return true;
        }
        if (op == "read") {
            long i = n % (long)N; E got = obj(o)->at((int)i); env->applied(op, on, false);
            if (!bits_equal(got, model[o][(size_t)i])) env->violation("CONTENT", nm + " at(" + std::to_string(i) + ") = " + show(got) + ", std::array holds " + show(model[o][(size_t)i]));
            return true;
        }
        if (op == "iterate") {
            const R& r = *obj(o); size_t cnt = 0; env->applied(op, on, false);
            for (auto it = utl::begin(r); it != utl::end(r); ++it, ++cnt)
                if (cnt >= N || !bits_equal(*it, model[o][cnt])) { env->violation("CONTENT", nm + " iteration element " + std::to_string(cnt) + " differs from std::array"); return true; }
            if (cnt != N || (size_t)r.size() != N || (size_t)utl::size(r) != N) env->violation("SPAN", nm + " begin..end / size() do not cover N elements");
            return true;
        }
        if (op == "destroy") { obj(o)->~R(); env->slots.kill((size_t)o); env->applied(op, on, true); return true; }
        return false;
    }
    void check_all(size_t stepno) {
        if (verdict().failed()) return;
        for (long o = 0; o < (long)NOBJ; o++) {
            if (!live(o)) continue;
            const R& r = *obj(o);
            if (r.data() != (const E*)obj(o)) { env->violation("SPAN", nm + " data() is not the object's own storage"); return; }
            for (size_t i = 0; i < N; i++) if (!bits_equal(r[(int)i], model[o][i])) {
                env->violation("CONTENT", nm + " o" + std::to_string(o) + " after step " + std::to_string(stepno) + " (" + env->cur_op + "): element " + std::to_string(i) + " = " + show(r[(int)i]) + ", std::array holds " + show(model[o][i]));
                return;
            }
        }
    }
};

// ---- tuples -----------------------------------------------------------------------------------------------------
template <template <class...> class TUP, class... Ts>
struct TupleTarget : Target {
    using R = TUP<Ts...>; using M = std::tuple<typename Pay<Ts>::model...>;
    static constexpr size_t N = sizeof...(Ts);
    std::string nm;
    explicit TupleTarget(const char* tupname) : nm(std::string(tupname) + "<" + ((std::string(Pay<Ts>::nm()) + ",") + ...) + ">") { static_assert(sizeof(R) <= SLOTB); }
    std::string name() const override { return nm; }
    void gen_steps(Plan& p, Rng& r, const std::string& tier) override {
        gen_history(p, r, tier, {"ctor_default", "ctor_values", "copy", "assign", "write", "read", "destroy"}, {3, 4, 3, 6, 8, 2, 2}, 3);
    }
    Env* env = nullptr; M model[NOBJ]; long nobj = 1;
    R* obj(long i) { return reinterpret_cast<R*>(env->slots.at((size_t)i)); }
    bool live(long i) { return env->slots.live[i]; }
    void destroy(long o) { { Sut s; obj(o)->~R(); } env->slots.kill((size_t)o); model[o] = M(); }

    void run(const Plan& p, Env& e) override {
        env = &e; cur_env() = &e;
        nobj = p.geti("nobj", 1); if (nobj < 1) nobj = 1; if (nobj > (long)NOBJ) nobj = NOBJ;
        for (auto& m : model) m = M();
        size_t k = 0;
        for (auto& st : p.steps) {
            env->begin_step(st.op);
            if (apply(st)) { check_all(k); env->heap_check(); }
            if (verdict().failed()) break;
            k++;
        }
        if (!verdict().failed()) {
            for (long o = 0; o < (long)NOBJ; o++) if (live(o)) { env->begin_step("final_destroy"); destroy(o); }
            env->begin_step("end"); env->heap_check(); env->final_leak_check();
        }
    }
    template <size_t I> using elem_t = std::tuple_element_t<I, std::tuple<Ts...>>;
    template <size_t... I> void construct_values(long o, const long (&k)[N], std::index_sequence<I...>) {
        { Sut s; new (obj(o)) R(Pay<elem_t<I>>::make(k[I])...); }
        model[o] = M([&] { elem_t<I> v = Pay<elem_t<I>>::make(k[I]); return Pay<elem_t<I>>::to_model(v); }()...);
    }
    template <size_t I> void write_one(long o, long k) {
        using T = elem_t<I>;
        { Sut s; T v = Pay<T>::make(k); utl::get<I>(*obj(o)) = v; }
        { T v = Pay<T>::make(k); std::get<I>(model[o]) = Pay<T>::to_model(v); }
    }
    template <size_t... I> void write_at(long o, long i, long k, std::index_sequence<I...>) { ((i == (long)I ? write_one<I>(o, k) : (void)0), ...); }
    template <size_t I> bool equal_one(long o, std::string& why) {
        using T = elem_t<I>; const R& r = *obj(o);
        typename Pay<T>::model got; { Sut s; got = Pay<T>::to_model(utl::get<I>(r)); }
        if (!(got == std::get<I>(model[o]))) { why = "get<" + std::to_string(I) + "> = " + showm(got) + ", std::tuple holds " + showm(std::get<I>(model[o])); return false; }
        return true;
    }
    template <size_t... I> bool equal_all(long o, std::string& why, std::index_sequence<I...>) { return (equal_one<I>(o, why) && ...); }

    bool apply(const Step& st) {
        long o = st.arg(0) % nobj, src = st.arg(1) % nobj, n = st.arg(2); if (o < 0) o = 0; if (src < 0) src = 0; if (n < 0) n = 0;
        const std::string& op = st.op; std::string on = "o" + std::to_string(o);
        auto seq = std::make_index_sequence<N>{};
        if (op == "ctor_default") {
            if (live(o)) return false; { Sut s; new (obj(o)) R(); } env->slots.live[o] = true;
            model[o] = M([] { Ts v{}; return Pay<Ts>::to_model(v); }()...);
            env->applied(op, on, true); return true;
        }
        if (op == "ctor_values") {
            if (live(o)) return false; long k[N]; for (auto& x : k) x = env->next_value();
            construct_values(o, k, seq); env->slots.live[o] = true; env->applied(op, on, true); return true;
        }
        if (op == "copy") {
            if (live(o) || !live(src) || src == o) return false;
            { Sut s; new (obj(o)) R(*obj(src)); } env->slots.live[o] = true; model[o] = model[src];
            env->applied(op, on + "<-o" + std::to_string(src), true); env->interesting = true; return true;
        }
        if (!live(o)) return false;
        if (op == "assign") {
            if (!live(src)) return false; { Sut s; *obj(o) = *obj(src); } { M tmp = model[src]; model[o] = tmp; }
            env->applied(op, on + "<-o" + std::to_string(src), true); env->interesting = true; return true;
        }
        if (op == "write") { long i = n % (long)N; write_at(o, i, env->next_value(), seq); env->applied(op, on + " i=" + std::to_string(i), true); if (i > 0) env->interesting = true; return true; }
        if (op == "read") { env->applied(op, on, false); return true; }
        if (op == "destroy") { destroy(o); env->applied(op, on, true); return true; }
        return false;
    }
    void check_all(size_t stepno) {
        if (verdict().failed()) return;
        for (long o = 0; o < (long)NOBJ; o++) {
            if (!live(o)) continue;
            std::string why;
            if (!equal_all(o, why, std::make_index_sequence<N>{}) && !verdict().failed()) {
                env->violation("CONTENT", nm + " o" + std::to_string(o) + " after step " + std::to_string(stepno) + " (" + env->cur_op + "): " + why); return;
            }
        }
    }
};

// ---- converting construction / assignment between tuples of DIFFERENT element-type lists -------------------------------
// destination element I is long (even I) or double (odd I); the source tuple holds int / float: every value used is exactly
// representable in both, so the std::tuple model (same conversions) must agree bit for bit.
template <size_t I> using dst_elem_t = std::conditional_t<I % 2 == 0, long, double>;
template <size_t I> using src_elem_t = std::conditional_t<I % 2 == 0, int, float>;
template <template <class...> class TUP, class Seq> struct conv_types;
template <template <class...> class TUP, size_t... I> struct conv_types<TUP, std::index_sequence<I...>> {
    using dst = TUP<dst_elem_t<I>...>; using src = TUP<src_elem_t<I>...>; using model = std::tuple<dst_elem_t<I>...>; using msrc = std::tuple<src_elem_t<I>...>;
};

template <template <class...> class TUP, size_t N>
struct ConvTupleTarget : Target {
    using CT = conv_types<TUP, std::make_index_sequence<N>>;
    using R = typename CT::dst; using S = typename CT::src; using M = typename CT::model; using MS = typename CT::msrc;
    std::string nm;
    explicit ConvTupleTarget(const char* tupname) : nm(std::string(tupname) + "<conv," + std::to_string(N) + ">") { static_assert(sizeof(R) <= SLOTB); }
    std::string name() const override { return nm; }
    void gen_steps(Plan& p, Rng& r, const std::string& tier) override {
        gen_history(p, r, tier, {"ctor_default", "ctor_values", "convert_ctor", "copy", "assign", "convert_assign", "write", "read", "destroy"}, {2, 3, 5, 3, 4, 6, 6, 2, 2}, 4);
    }
    Env* env = nullptr; M model[NOBJ]; long nobj = 1;
    R* obj(long i) { return reinterpret_cast<R*>(env->slots.at((size_t)i)); }
    bool live(long i) { return env->slots.live[i]; }
    template <size_t I> static src_elem_t<I> sval(long k) { if constexpr (I % 2 == 0) return (int)(k * 8 + (long)I); else return (float)k + (float)I * 0.125f; }
    template <size_t... I> static S make_src(long k, std::index_sequence<I...>) { return S(sval<I>(k)...); }
    template <size_t... I> static MS make_msrc(long k, std::index_sequence<I...>) { return MS(sval<I>(k)...); }
    template <size_t... I> static M convert_model(const MS& s, std::index_sequence<I...>) { return M((dst_elem_t<I>)std::get<I>(s)...); }
    template <size_t I> void write_one(long o, long k) { dst_elem_t<I> v = (dst_elem_t<I>)sval<I>(k); utl::get<I>(*obj(o)) = v; std::get<I>(model[o]) = v; }
    template <size_t... I> void write_at(long o, long i, long k, std::index_sequence<I...>) { ((i == (long)I ? write_one<I>(o, k) : (void)0), ...); }
    template <size_t I> bool equal_one(long o, std::string& why) {
        const R& r = *obj(o); auto got = utl::get<I>(r);
        if (std::memcmp(&got, &std::get<I>(model[o]), sizeof(got)) != 0) { why = "get<" + std::to_string(I) + "> = " + show(got) + ", std::tuple holds " + show(std::get<I>(model[o])); return false; }
        return true;
    }
    template <size_t... I> bool equal_all(long o, std::string& why, std::index_sequence<I...>) { return (equal_one<I>(o, why) && ...); }
    template <size_t... I> void construct_values(long o, long k, std::index_sequence<I...>) { new (obj(o)) R((dst_elem_t<I>)sval<I>(k)...); model[o] = M((dst_elem_t<I>)sval<I>(k)...); }

    void run(const Plan& p, Env& e) override {
        env = &e; cur_env() = &e;
        nobj = p.geti("nobj", 1); if (nobj < 1) nobj = 1; if (nobj > (long)NOBJ) nobj = NOBJ;
        for (auto& m : model) m = M();
        size_t k = 0;
        for (auto& st : p.steps) {
            env->begin_step(st.op);
            if (apply(st)) { check_all(k); env->heap_check(); }
            if (verdict().failed()) break;
            k++;
        }
        if (!verdict().failed()) { for (long o = 0; o < (long)NOBJ; o++) if (live(o)) { obj(o)->~R(); env->slots.kill((size_t)o); } env->begin_step("end"); env->heap_check(); env->final_leak_check(); }
    }
    bool apply(const Step& st) {
        long o = st.arg(0) % nobj, src = st.arg(1) % nobj, n = st.arg(2); if (o < 0) o = 0; if (src < 0) src = 0; if (n < 0) n = 0;
        const std::string& op = st.op; std::string on = "o" + std::to_string(o); auto seq = std::make_index_sequence<N>{};
        if (op == "ctor_default") { if (live(o)) return false; new (obj(o)) R(); env->slots.live[o] = true; model[o] = M(); env->applied(op, on, true); return true; }
        if (op == "ctor_values") { if (live(o)) return false; construct_values(o, env->next_value(), seq); env->slots.live[o] = true; env->applied(op, on, true); return true; }
        if (op == "convert_ctor") {   // R(const TUP<other element types...>&)
            if (live(o)) return false; long k = env->next_value();
            S s = make_src(k, seq); new (obj(o)) R(s); env->slots.live[o] = true; model[o] = convert_model(make_msrc(k, seq), seq);
            env->applied(op, on, true); env->interesting = true; return true;
        }
        if (op == "copy") { if (live(o) || !live(src) || src == o) return false; new (obj(o)) R(*obj(src)); env->slots.live[o] = true; model[o] = model[src]; env->applied(op, on + "<-o" + std::to_string(src), true); env->interesting = true; return true; }
        if (!live(o)) return false;
        if (op == "assign") { if (!live(src)) return false; *obj(o) = *obj(src); { M tmp = model[src]; model[o] = tmp; } env->applied(op, on + "<-o" + std::to_string(src), true); env->interesting = true; return true; }
        if (op == "convert_assign") {   // assign-from(other) where the other tuple has a different element-type list
            long k = env->next_value(); S s = make_src(k, seq);
            // spelled as a user writes it: `dst = src` - today that is the converting constructor plus copy assignment, and it is
            // whatever converting operator= the class may grow
            if constexpr (std::is_assignable<R&, const S&>::value) *obj(o) = s; else *obj(o) = R(s);
            model[o] = convert_model(make_msrc(k, seq), seq);
            env->applied(op, on, true); env->interesting = true; return true;
        }
        if (op == "write") { long i = n % (long)N; write_at(o, i, env->next_value(), seq); env->applied(op, on + " i=" + std::to_string(i), true); return true; }
        if (op == "read") { env->applied(op, on, false); return true; }
        if (op == "destroy") { obj(o)->~R(); env->slots.kill((size_t)o); model[o] = M(); env->applied(op, on, true); return true; }
        return false;
    }
    void check_all(size_t stepno) {
        if (verdict().failed()) return;
        for (long o = 0; o < (long)NOBJ; o++) {
            if (!live(o)) continue; std::string why;
            if (!equal_all(o, why, std::make_index_sequence<N>{})) { env->violation("CONTENT", nm + " o" + std::to_string(o) + " after step " + std::to_string(stepno) + " (" + env->cur_op + "): " + why); return; }
        }
    }
};

#define REG(T, NAME, ...) static T t_##NAME __VA_ARGS__; static Registrar r_##NAME(&t_##NAME);
#define CONV(N) using c1_##N = ConvTupleTarget<utl::tuple, N>; REG(c1_##N, c1_##N, {"utl::tuple"}) using c2_##N = ConvTupleTarget<utl::tuplev2, N>; REG(c2_##N, c2_##N, {"utl::tuplev2"})
using arr3 = utl::array<int, 3>; using uvec = utl::vector<int>;
using a_i1 = ArrayTarget<int, 1>; REG(a_i1, a_i1)
using a_i3 = ArrayTarget<int, 3>; REG(a_i3, a_i3)
using a_d4 = ArrayTarget<double, 4>; REG(a_d4, a_d4)
using t1_a = TupleTarget<utl::tuple, int, double, arr3>; REG(t1_a, t1_a, {"utl::tuple"})
using t1_b = TupleTarget<utl::tuple, int, uvec, tracked>; REG(t1_b, t1_b, {"utl::tuple"})
using t1_c = TupleTarget<utl::tuple, tracked, int>; REG(t1_c, t1_c, {"utl::tuple"})
using t2_a = TupleTarget<utl::tuplev2, int, double, arr3>; REG(t2_a, t2_a, {"utl::tuplev2"})
using t2_b = TupleTarget<utl::tuplev2, int, uvec, tracked>; REG(t2_b, t2_b, {"utl::tuplev2"})
using t2_c = TupleTarget<utl::tuplev2, tracked, int>; REG(t2_c, t2_c, {"utl::tuplev2"})
CONV(2) CONV(3) CONV(4) CONV(5) CONV(6) CONV(7) CONV(8) CONV(9) CONV(10) CONV(11) CONV(12)   // every hand-written arity of utl::tuple (tuple2..tuple12)

} // namespace c19
