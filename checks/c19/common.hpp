// C19 harness: seeded operation histories over the library's own containers, interpreted against the
// real code inside simulator-owned slots on the simulated heap, compared step by step with std:: models.
#pragma once
#include <string>
#include <vector>
#include <cstring>
#include <cstdio>
#include "../../sim/rng.hpp"
#include "../../sim/plan.hpp"
#include "../../sim/trace.hpp"
#include "../../sim/hostheap.hpp"

namespace c19 {
using namespace sim;

constexpr size_t NOBJ = 3;
constexpr size_t SLOTB = 1024;

struct Env {
    Slots<NOBJ, SLOTB> slots;
    long counter = 0;
    std::string target;
    std::string last_op;        // last applied (not skipped) operation, for finding keys
    std::string sigstr;         // normalised applied operation sequence (distinctness measure)
    int changing = 0;           // state-changing applied steps
    bool interesting = false;   // growth, refusal, copy/assign between objects, self-assignment
    uint64_t ticks = 0;         // container operations applied
    long next_value() { return ++counter; }
    void reset(const Plan& p) {
        host_heap().reset(heapcfg_from_plan(p));
        slots.reset((unsigned char)p.geti("slot.poison", 0xE7));
        counter = 0; last_op.clear(); cur_op.clear(); sigstr.clear(); changing = 0; interesting = false; ticks = 0;
        target = p.get("target");
    }
    std::string cur_op;         // operation being interpreted (set by the run loop before each step)
    std::string key(const std::string& vclass) const { return target + ":" + vclass + ":" + cur_op; }
    void begin_step(const std::string& op) {
        host_heap().set_origin(op); cur_op = op;
        crash_note(target + ":" + op);
    }
    void violation(const std::string& vclass, const std::string& detail) { fail(vclass, detail, key(vclass)); }
    // after every applied step: heap invariants
    void heap_check() {
        host_heap().check_integrity();
        auto& errs = host_heap().errors();
        if (!errs.empty()) fail(errs[0].first, errs[0].second, key(errs[0].first));
    }
    void applied(const std::string& op, const std::string& note, bool state_changing) {
        last_op = op; ticks++;
        sigstr += op + ":" + note + ";";
        if (state_changing) changing++;
        trace().ev("op " + op + " " + note);
        probe("op." + op);
    }
    void final_leak_check() {
        if (verdict().failed()) return;
        if (host_heap().live_count() != 0) {
            auto& bl = host_heap().blocks();
            std::string origin;
            for (auto& b : bl) if (b.live) { origin = b.origin; break; }
            fail("LEAK", std::to_string(host_heap().live_count()) + " heap block(s) still live after every object was destroyed: " + host_heap().live_summary(),
                 target + ":LEAK:" + origin);
        }
    }
};

inline Env*& cur_env() { static Env* e = nullptr; return e; }

struct Target {
    virtual ~Target() {}
    virtual std::string name() const = 0;
    virtual void gen_steps(Plan& p, Rng& r, const std::string& tier) = 0;
    virtual void run(const Plan& p, Env& env) = 0;
};

std::vector<Target*>& registry();
struct Registrar { Registrar(Target* t) { registry().push_back(t); } };

template <class T> inline bool bits_equal(const T& a, const T& b) { return std::memcmp(&a, &b, sizeof(T)) == 0; }
template <class T> inline std::string show(const T& v) {
    if constexpr (std::is_floating_point<T>::value) { char b[64]; snprintf(b, sizeof b, "%.17g", (double)v); return b; }
    else return std::to_string(v);
}

inline size_t history_length(Rng& r, const std::string& tier) {
    // many short, diverse runs; a tail of long ones
    uint64_t d = r.below(100);
    if (d < 50) return 1 + r.below(8);
    if (d < 85) return 5 + r.below(26);
    if (tier == "thorough") return 20 + r.below(181);
    return 20 + r.below(81);
}

// Generic history generator. `ops`: constructors first (the last constructor must be "copy"), then operations on live
// objects, "destroy" last. Steps carry (obj, src, n); interpretation is modulo the current state, so any subsequence of a
// plan is again a plan. Swarm style: each run disables a random subset of operation kinds.
inline void gen_history(Plan& p, Rng& r, const std::string& tier, const std::vector<std::string>& ops, const std::vector<int>& weights0, int nctor) {
    std::vector<int> weight = weights0;
    int nops = (int)ops.size();
    for (int i = 0; i < nops; i++) if (r.chance(0.2)) weight[i] = 0;
    bool anyctor = false; for (int i = 0; i + 1 < nctor; i++) anyctor |= weight[i] > 0;
    if (!anyctor) { int i = (int)r.below((uint64_t)(nctor - 1)); weight[i] = weights0[i] ? weights0[i] : 1; }
    bool anyop = false; for (int i = nctor; i < nops; i++) anyop |= weight[i] > 0;
    if (!anyop) weight[nctor] = 1;
    long nobj = 1 + (long)r.below(NOBJ);
    p.seti("nobj", nobj);
    size_t len = history_length(r, tier);
    bool live[NOBJ] = {};
    auto draw = [&](int lo, int hi) {   // weighted draw among ops [lo,hi)
        int total = 0; for (int i = lo; i < hi; i++) total += weight[i];
        if (total == 0) return lo;
        int w = (int)r.below((uint64_t)total), i = lo;
        while (w >= weight[i]) { w -= weight[i]; i++; }
        return i;
    };
    for (size_t k = 0; k < len; k++) {
        long o = (long)r.below((uint64_t)nobj);
        int op = live[o] ? draw(nctor, nops) : draw(0, nctor);
        Step s; s.op = ops[(size_t)op];
        s.a = {o, (long)r.below((uint64_t)nobj), (long)r.below(16)};
        if (s.op == "assign" && r.chance(0.15)) s.a[1] = o;   // self-assignment
        if (op < nctor - 1) live[o] = true;
        if (op == nctor - 1) { if (live[s.a[1]] && s.a[1] != o) live[o] = true; }
        if (s.op == "destroy") live[o] = false;
        p.steps.push_back(s);
    }
}

} // namespace c19
