// C20 harness environment (no nmtools headers): slots, finding keys, target registry.
#pragma once
#include <vector>
#include <string>
#include "../../sim/rng.hpp"
#include "../../sim/plan.hpp"
#include "../../sim/trace.hpp"
#include "../../sim/hostheap.hpp"

namespace c20 {
using namespace sim;

constexpr size_t NOBJ = 3;
constexpr size_t SLOTB = 2048;
using Shape = std::vector<size_t>;

struct Env {
    Slots<NOBJ, SLOTB> slots;
    long counter = 0;
    std::string target, cur_op, sigstr;
    int changing = 0; bool interesting = false; uint64_t ticks = 0;
    long next_value() { return ++counter; }
    void reset(const Plan& p) {
        host_heap().reset(heapcfg_from_plan(p));
        slots.reset((unsigned char)p.geti("slot.poison", 0xE7));
        counter = 0; cur_op.clear(); sigstr.clear(); changing = 0; interesting = false; ticks = 0;
        target = p.get("target");
    }
    std::string key(const std::string& vclass) const { return target + ":" + vclass + ":" + cur_op; }
    void violation(const std::string& vclass, const std::string& detail) { fail(vclass, detail, key(vclass)); }
    void begin_step(const std::string& op) { host_heap().set_origin(op); cur_op = op; crash_note(target + ":" + op); }
    void heap_check() {
        host_heap().check_integrity();
        auto& errs = host_heap().errors();
        if (!errs.empty()) fail(errs[0].first, errs[0].second, key(errs[0].first));
    }
    void applied(const std::string& op, const std::string& note, bool state_changing) {
        ticks++; sigstr += op + ":" + note + ";"; if (state_changing) changing++;
        trace().ev("op " + op + " " + note); probe("op." + op);
    }
    void final_leak_check() {
        if (verdict().failed()) return;
        if (host_heap().live_count() != 0) {
            std::string origin; for (auto& b : host_heap().blocks()) if (b.live) { origin = b.origin; break; }
            fail("LEAK", std::to_string(host_heap().live_count()) + " heap block(s) still live after every object was destroyed: " + host_heap().live_summary(), target + ":LEAK:" + origin);
        }
    }
};

struct Target {
    virtual ~Target() {}
    virtual std::string name() const = 0;
    virtual void gen_steps(Plan& p, Rng& r, const std::string& tier) = 0;
    virtual void run(const Plan& p, Env& env) = 0;
};
std::vector<Target*>& registry();
struct Registrar { Registrar(Target* t) { registry().push_back(t); } };

} // namespace c20
