#define KIND_GROUP 0
#include "arr.hpp"
namespace c20 {
#include "kinds.inc"
}
