#define VIEW_GROUP 3
#include "views.hpp"
namespace c20 {
#include "views.inc"
}
