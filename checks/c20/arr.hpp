// C20 part A: seeded object histories over every array class against an independent reference model.
// The model knows only the *definition* of a kind (fixed rank, bounded rank, fixed / bounded element count,
// clipped extents, layout) -- it never calls nmtools index functions.
#pragma once
#include <vector>
#include <string>
#include <optional>
#include <cstring>
#include <type_traits>
#include "../../sim/rng.hpp"
#include "../../sim/plan.hpp"
#include "../../sim/trace.hpp"
#include "../../sim/hostheap.hpp"

#include "nmtools/meta.hpp"
#include "nmtools/array/ndarray/ndarray.hpp"
#include "nmtools/array/ndarray/fixed.hpp"
#include "nmtools/array/ndarray/hybrid.hpp"
#include "nmtools/array/ndarray/dynamic.hpp"
#include "nmtools/utility/cast.hpp"
#include "nmtools/utility/shape.hpp"

#include "env.hpp"
namespace c20 {
namespace nm = nmtools;
namespace na = nmtools::array;
namespace meta = nmtools::meta;

inline std::string shape_str(const Shape& s) { std::string r = "("; for (size_t i = 0; i < s.size(); i++) { if (i) r += ","; r += std::to_string(s[i]); } return r + ")"; }
inline size_t prod(const Shape& s) { size_t p = 1; for (auto x : s) p *= x; return p; }

// index array (std::array / std::vector / tuple of constants / clipped integers / hybrid 1-d) -> std::vector<size_t>
template <class S> Shape to_vec(const S& s) {
    SimGuard g; Shape v;
    constexpr auto N = meta::len_v<S>;
    if constexpr (N > 0) { meta::template_for<N>([&](auto i) { v.push_back((size_t)nm::at(s, i)); }); }
    else { size_t n = (size_t)nm::len(s); for (size_t i = 0; i < n; i++) v.push_back((size_t)nm::at(s, i)); }
    return v;
}

// independent model arithmetic
inline Shape row_major_strides(const Shape& s) { Shape st(s.size(), 1); for (long i = (long)s.size() - 2; i >= 0; i--) st[(size_t)i] = st[(size_t)i + 1] * s[(size_t)i + 1]; return st; }
inline Shape col_major_strides(const Shape& s) { Shape st(s.size(), 1); for (size_t i = 1; i < s.size(); i++) st[i] = st[i - 1] * s[i - 1]; return st; }
inline Shape unravel(size_t flat, const Shape& s) { Shape idx(s.size(), 0); for (long i = (long)s.size() - 1; i >= 0; i--) { idx[(size_t)i] = flat % s[(size_t)i]; flat /= s[(size_t)i]; } return idx; }
inline size_t dot(const Shape& a, const Shape& b) { size_t r = 0; for (size_t i = 0; i < a.size(); i++) r += a[i] * b[i]; return r; }

enum Family { NDARRAY, LEGACY_FIXED, LEGACY_HYBRID, LEGACY_DYNAMIC };

// ---- uniform access to the four class families -----------------------------------------------------------------
template <class A, size_t... I> decltype(auto) call_idx(A& a, const size_t* idx, std::index_sequence<I...>) { return a(idx[I]...); }

template <class Tr>
struct Access {
    using A = typename Tr::A; using E = typename Tr::E;
    static constexpr bool rank_ok(size_t r) { return Tr::fixed_rank < 0 || (size_t)Tr::fixed_rank == r; }
    // pointer to the element at multi-index idx through the class's own operator()
    static E* elem(A& a, const Shape& idx) {
        const size_t* p = idx.data();
        switch (idx.size()) {
            case 1: if constexpr (rank_ok(1)) return &call_idx(a, p, std::make_index_sequence<1>{}); break;
            case 2: if constexpr (rank_ok(2)) return &call_idx(a, p, std::make_index_sequence<2>{}); break;
            case 3: if constexpr (rank_ok(3)) return &call_idx(a, p, std::make_index_sequence<3>{}); break;
            case 4: if constexpr (rank_ok(4)) return &call_idx(a, p, std::make_index_sequence<4>{}); break;
        }
        return nullptr;
    }
    static const E* celem(const A& a, const Shape& idx) {
        const size_t* p = idx.data();
        switch (idx.size()) {
            case 1: if constexpr (rank_ok(1)) return &call_idx(a, p, std::make_index_sequence<1>{}); break;
            case 2: if constexpr (rank_ok(2)) return &call_idx(a, p, std::make_index_sequence<2>{}); break;
            case 3: if constexpr (rank_ok(3)) return &call_idx(a, p, std::make_index_sequence<3>{}); break;
            case 4: if constexpr (rank_ok(4)) return &call_idx(a, p, std::make_index_sequence<4>{}); break;
        }
        return nullptr;
    }
    // the legacy classes also offer a member at(index array): it must address the same element as operator()
    static const E* elem_at(const A& a, const Shape& idx) {
        if constexpr (Tr::family == LEGACY_HYBRID) { typename A::shape_type i{}; for (size_t k = 0; k < idx.size(); k++) i[k] = idx[k]; return &a.at(i); }
        else if constexpr (Tr::family == LEGACY_DYNAMIC) { std::vector<size_t> i(idx.begin(), idx.end()); return &a.at(i); }
        else { (void)a; (void)idx; return nullptr; }
    }
    static Shape shape(const A& a) { return to_vec(a.shape()); }
    static Shape strides(const A& a) { return to_vec(a.strides()); }
    static size_t size(const A& a) {
        if constexpr (Tr::family == NDARRAY) return (size_t)a.size();
        else if constexpr (Tr::family == LEGACY_DYNAMIC) return (size_t)a.numel();
        else if constexpr (Tr::family == LEGACY_FIXED) return (size_t)A::numel();
        else return prod(to_vec(a.shape()));
    }
    static const E* data(const A& a) {
        if constexpr (Tr::family == LEGACY_FIXED) return reinterpret_cast<const E*>(&a.data);
        else if constexpr (Tr::family == LEGACY_DYNAMIC) return a.data.data();
        else return a.data();
    }
    static size_t buflen(const A& a) {
        if constexpr (Tr::family == NDARRAY) return (size_t)nm::len(a.data_);
        else if constexpr (Tr::family == LEGACY_DYNAMIC) return a.data.size();
        else if constexpr (Tr::family == LEGACY_HYBRID) return (size_t)Tr::max_numel;
        else return (size_t)A::numel();
    }
    // resize through the class's own API; style 0: variadic extents, style 1: one index array. Returns accepted?
    template <size_t... I> static bool resize_var(A& a, const Shape& s, std::index_sequence<I...>) {
        if constexpr (Tr::family == LEGACY_DYNAMIC) { a.resize(s[I]...); return true; }
        else return a.resize(s[I]...);
    }
    static bool resize(A& a, const Shape& s, int style) {
        if constexpr (Tr::family == LEGACY_FIXED || Tr::constant_shape) { (void)a; (void)s; (void)style; return false; }
        else if constexpr (Tr::family == LEGACY_HYBRID) {
            if (style) { typename A::shape_type sh{}; for (size_t i = 0; i < s.size(); i++) sh[i] = s[i]; return a.resize(sh); }
            return resize_var(a, s, std::make_index_sequence<(size_t)Tr::fixed_rank>{});
        } else {
            if constexpr (Tr::family == LEGACY_DYNAMIC) {
                // three overloads: variadic extents (style 0), const shape_type& (style 1), generic index array (style 2)
                if (style == 2) { std::vector<int> si(s.begin(), s.end()); a.resize(si); return true; }
                if (style == 1) { a.resize(s); return true; }
            } else if (style) return a.resize(s);
            switch (s.size()) {
                case 1: return resize_var(a, s, std::make_index_sequence<1>{});
                case 2: return resize_var(a, s, std::make_index_sequence<2>{});
                case 3: return resize_var(a, s, std::make_index_sequence<3>{});
                default: return resize_var(a, s, std::make_index_sequence<4>{});
            }
        }
    }
};

// snapshot of everything a refused resize must leave alone
struct Snap { Shape shape, strides; size_t size = 0, buflen = 0; std::vector<unsigned char> bytes; const void* data = nullptr; };

template <class Tr>
struct ArrTarget : Target {
    using A = typename Tr::A; using E = typename Tr::E; using Acc = Access<Tr>;
    struct Model { Shape shape; std::vector<std::optional<E>> val; };   // val indexed by row-major flat index of the logical array
    std::string name() const override { return Tr::name(); }
    ArrTarget() { static_assert(sizeof(A) <= SLOTB, "slot too small"); }

    static E val(long k) { if constexpr (std::is_floating_point<E>::value) return (E)k + (E)0.5; else return (E)k; }

    // the kind's refusal rule, from its definition
    static bool model_accepts(const Shape& s) {
        if (Tr::constant_shape || Tr::family == LEGACY_FIXED) return false;
        if (Tr::fixed_rank >= 0 && (long)s.size() != Tr::fixed_rank) return false;
        if (Tr::max_rank >= 0 && (long)s.size() > Tr::max_rank) return false;
        size_t n = prod(s);
        if (Tr::fixed_numel >= 0 && (long)n != Tr::fixed_numel) return false;
        if (Tr::max_numel >= 0 && (long)n > Tr::max_numel) return false;
        if (Tr::clip >= 0) for (auto x : s) if ((long)x > Tr::clip) return false;
        return true;
    }
    static const char* refusal_cause(const Shape& s) {
        if (Tr::fixed_rank >= 0 && (long)s.size() != Tr::fixed_rank) return "rank";
        if (Tr::max_rank >= 0 && (long)s.size() > Tr::max_rank) return "max_rank";
        size_t n = prod(s);
        if (Tr::fixed_numel >= 0 && (long)n != Tr::fixed_numel) return "numel";
        if (Tr::max_numel >= 0 && (long)n > Tr::max_numel) return "capacity";
        return "clip";
    }

    void gen_steps(Plan& p, Rng& r, const std::string& tier) override {
        // the first three operations apply to a dead slot (constructions), the others to a live object
        std::vector<std::string> ops = {"ctor", "copy", "ctor_nested", "resize", "write", "read", "assign", "cast_kind", "cast_dtype", "assign_foreign", "destroy", "assign_nested"};
        std::vector<int> w = {4, 3, (Tr::family == LEGACY_HYBRID || Tr::family == LEGACY_DYNAMIC ? 3 : 0), 10, 8, 2, 4, 2, 2, (Tr::family == NDARRAY ? 0 : 3), 1, (Tr::family == NDARRAY ? 0 : 3)};
        for (auto& x : w) if (r.chance(0.15)) x = 0;
        if (w[0] == 0) w[0] = 4;
        long nobj = 1 + (long)r.below(NOBJ); p.seti("nobj", nobj);
        uint64_t d = r.below(100);
        size_t len = d < 55 ? 1 + r.below(8) : d < 90 ? 4 + r.below(16) : (tier == "thorough" ? 10 + r.below(50) : 10 + r.below(25));
        bool live[NOBJ] = {};
        for (size_t k = 0; k < len; k++) {
            long o = (long)r.below((uint64_t)nobj);
            int lo = live[o] ? 3 : 0, hi = live[o] ? (int)ops.size() : 3;
            int total = 0; for (int i = lo; i < hi; i++) total += w[i];
            int op = lo; if (total) { int x = (int)r.below((uint64_t)total); while (x >= w[op]) { x -= w[op]; op++; } }
            Step s; s.op = ops[(size_t)op];
            // args: obj, src, n, rank, e0, e1, e2, style
            s.a = {o, (long)r.below((uint64_t)nobj), (long)r.below(64), r.chance(0.08) ? 4 : 1 + (long)r.below(3), 1 + (long)r.below(4), 1 + (long)r.below(4), 1 + (long)r.below(4), (long)r.below(3)};
            if (s.op == "resize" && r.chance(0.5)) {
                // bias toward shapes that are interesting for this kind: same element count / at a capacity edge
                static const long fav[][4] = {{3, 2, 3, 2}, {3, 2, 2, 3}, {3, 3, 2, 2}, {2, 3, 4, 1}, {2, 4, 3, 1}, {2, 2, 3, 1}, {1, 4, 1, 1}, {3, 1, 3, 4}, {3, 4, 3, 1}, {2, 2, 2, 1}, {3, 1, 1, 1}, {1, 1, 1, 1}, {3, 3, 4, 1}, {2, 3, 2, 1}};
                auto& f = fav[r.below(sizeof fav / sizeof fav[0])];
                s.a[3] = f[0]; s.a[4] = f[1]; s.a[5] = f[2]; s.a[6] = f[3];
            }
            if (s.op == "assign" && r.chance(0.15)) s.a[1] = o;
            if (op == 0 || op == 2) live[o] = true;
            if (op == 1 && live[s.a[1]] && s.a[1] != o) live[o] = true;
            if (s.op == "destroy") live[o] = false;
            p.steps.push_back(s);
        }
    }

    Env* env = nullptr; Model model[NOBJ]; long nobj = 1;
    A* obj(long i) { return reinterpret_cast<A*>(env->slots.at((size_t)i)); }
    bool live(long i) { return env->slots.live[i]; }
    void destroy(long o) { { Sut s; obj(o)->~A(); } env->slots.kill((size_t)o); model[o] = Model(); }

    static Shape step_shape(const Step& st) {
        long r = st.arg(3, 1); if (r < 1) r = 1; if (r > 4) r = 4;
        Shape s;
        for (long i = 0; i < r && i < 3; i++) { long e = st.arg(4 + (size_t)i, 1); if (e < 1) e = 1; if (e > 4) e = 4; if (r == 4 && e > 2) e = 2; s.push_back((size_t)e); }
        if (r == 4) s.push_back((size_t)(1 + st.arg(2) % 2));   // rank 4 (beyond every bounded rank here) with small extents
        return s;
    }

    void run(const Plan& p, Env& e) override {
        env = &e;
        nobj = p.geti("nobj", 1); if (nobj < 1) nobj = 1; if (nobj > (long)NOBJ) nobj = NOBJ;
        for (auto& m : model) m = Model();
        size_t k = 0;
        for (auto& st : p.steps) {
            env->begin_step(st.op);
            if (apply(st)) { check_all(k); env->heap_check(); }
            if (verdict().failed()) break;
            k++;
        }
        if (!verdict().failed()) {
            for (long o = 0; o < (long)NOBJ; o++) if (live(o)) { env->begin_step("final_destroy"); destroy(o); }
            env->begin_step("end"); env->heap_check(); env->final_leak_check();
        }
    }

    Snap snapshot(const A& a) {
        SimGuard g; Snap s;
        { Sut x; s.shape = Acc::shape(a); s.strides = Acc::strides(a); s.size = Acc::size(a); s.buflen = Acc::buflen(a); s.data = Acc::data(a); }
        size_t nbytes = s.buflen * sizeof(E);
        if (nbytes > 4096) nbytes = 4096;
        s.bytes.assign((const unsigned char*)s.data, (const unsigned char*)s.data + nbytes);
        return s;
    }

    void nested_model(long o, const Shape& sh, const std::vector<E>& vals) {
        env->slots.live[o] = true; model[o].shape = sh; model[o].val.assign(vals.size(), std::nullopt);
        for (size_t i = 0; i < vals.size(); i++) model[o].val[i] = vals[i];
    }
    template <size_t N0> void nested1(long o) {
        E a[N0]; std::vector<E> vals; { SimGuard g; for (size_t i = 0; i < N0; i++) { a[i] = val(env->next_value()); vals.push_back(a[i]); } }
        { Sut x; new (env->slots.at((size_t)o)) A(std::move(a)); } nested_model(o, Shape{N0}, vals);
    }
    template <size_t N0, size_t N1> void nested2(long o) {
        E a[N0][N1]; std::vector<E> vals; { SimGuard g; for (size_t i = 0; i < N0; i++) for (size_t j = 0; j < N1; j++) { a[i][j] = val(env->next_value()); vals.push_back(a[i][j]); } }
        { Sut x; new (env->slots.at((size_t)o)) A(std::move(a)); } nested_model(o, Shape{N0, N1}, vals);
    }
    template <size_t N0, size_t N1, size_t N2> void nested3(long o) {
        E a[N0][N1][N2]; std::vector<E> vals;
        { SimGuard g; for (size_t i = 0; i < N0; i++) for (size_t j = 0; j < N1; j++) for (size_t k = 0; k < N2; k++) { a[i][j][k] = val(env->next_value()); vals.push_back(a[i][j][k]); } }
        { Sut x; new (env->slots.at((size_t)o)) A(std::move(a)); } nested_model(o, Shape{N0, N1, N2}, vals);
    }

    template <long R> void assign_nested_rank(A& a, const Shape& sh, const E (&v)[24]) {
        (void)a; (void)sh; (void)v;
        if constexpr (R == 1) {
        if (sh[0] == 3) { Sut x; a = {v[0], v[1], v[2]}; }
        else if (sh[0] == 5) { Sut x; a = {v[0], v[1], v[2], v[3], v[4]}; }
        else if (sh[0] == 8) { Sut x; a = {v[0], v[1], v[2], v[3], v[4], v[5], v[6], v[7]}; }
        } else if constexpr (R == 2) {
        if (sh[0] == 2 && sh[1] == 3) { Sut x; a = {{v[0], v[1], v[2]}, {v[3], v[4], v[5]}}; }
        else if (sh[0] == 3 && sh[1] == 2) { Sut x; a = {{v[0], v[1]}, {v[2], v[3]}, {v[4], v[5]}}; }
        else if (sh[0] == 3 && sh[1] == 4) { Sut x; a = {{v[0], v[1], v[2], v[3]}, {v[4], v[5], v[6], v[7]}, {v[8], v[9], v[10], v[11]}}; }
        } else if constexpr (R == 3) {
        if (sh[0] == 2 && sh[1] == 3 && sh[2] == 2) { Sut x; a = {{{v[0], v[1]}, {v[2], v[3]}, {v[4], v[5]}}, {{v[6], v[7]}, {v[8], v[9]}, {v[10], v[11]}}}; }
        else if (sh[0] == 1 && sh[1] == 2 && sh[2] == 3) { Sut x; a = {{{v[0], v[1], v[2]}, {v[3], v[4], v[5]}}}; }
        else if (sh[0] == 2 && sh[1] == 3 && sh[2] == 4) { Sut x; a = {{{v[0], v[1], v[2], v[3]}, {v[4], v[5], v[6], v[7]}, {v[8], v[9], v[10], v[11]}}, {{v[12], v[13], v[14], v[15]}, {v[16], v[17], v[18], v[19]}, {v[20], v[21], v[22], v[23]}}}; }
        }
    }

    void after_construct(long o) {
        // the model learns the default-constructed shape from the object once (contents unknown), then owns it
        const A& a = *obj(o);
        Shape s; { Sut x; s = Acc::shape(a); }
        model[o].shape = s; model[o].val.assign(prod(s), std::nullopt);
    }

    bool apply(const Step& st) {
        long o = st.arg(0) % nobj, src = st.arg(1) % nobj, n = st.arg(2); if (o < 0) o = 0; if (src < 0) src = 0; if (n < 0) n = 0;
        const std::string& op = st.op; std::string on = "o" + std::to_string(o);
        if (op == "ctor") {
            if (live(o)) return false;
            { Sut s; new (env->slots.at((size_t)o)) A{}; } env->slots.live[o] = true;
            if constexpr (Tr::family == NDARRAY && Tr::clip >= 0 && Tr::fixed_numel >= 0) {
                // clipped shape over a fixed buffer: the default shape (1,..,1,len(buffer)) is not representable when the buffer is
                // longer than the last axis' bound (known finding, exhibited by findings/C20/clipped_fixed_default_ctor.replay);
                // histories therefore start from the first representable shape, as nmtools::cast does
                Shape s = {2, 3, 2}; bool ok; { Sut x; ok = Acc::resize(*obj(o), s, (int)st.arg(7) & 1); }
                if (!ok) { env->violation("REFUSAL", std::string(Tr::name()) + " resize(2,3,2) right after construction was refused"); return true; }
                model[o].shape = s; model[o].val.assign(prod(s), std::nullopt);
                env->applied(op, on + " " + shape_str(s), true);
            } else if constexpr (Tr::family == LEGACY_DYNAMIC) {
                // a default-constructed dynamic_ndarray has rank 0 and no storage; give it its first shape right away
                Shape s = step_shape(st); { Sut x; Acc::resize(*obj(o), s, (int)(st.arg(7) % 3)); }
                model[o].shape = s; model[o].val.assign(prod(s), std::nullopt);
                env->applied(op, on + " " + shape_str(s), true);
            } else { after_construct(o); env->applied(op, on + " " + shape_str(model[o].shape), true); }
            return true;
        }
        if (op == "ctor_nested") {   // the legacy classes' constructors from an rvalue nested C array: shape, strides and contents come from the argument
            if (live(o)) return false;
            if constexpr (Tr::family == LEGACY_HYBRID || Tr::family == LEGACY_DYNAMIC) {
                long rank = Tr::family == LEGACY_HYBRID ? Tr::fixed_rank : 1 + n % 3, pick = st.arg(4) % 3;
                if (rank == 1) { if (pick == 0) nested1<3>(o); else if (pick == 1) nested1<5>(o); else nested1<8>(o); }
                else if (rank == 2) { if (pick == 0) nested2<2, 3>(o); else if (pick == 1) nested2<3, 2>(o); else nested2<3, 4>(o); }
                else { if (pick == 0) nested3<2, 3, 2>(o); else if (pick == 1) nested3<1, 2, 3>(o); else nested3<2, 3, 4>(o); }
                env->applied(op, on + " " + shape_str(model[o].shape), true); env->interesting = true;
                return true;
            } else return false;
        }
        if (op == "raw_ctor") {   // plain default construction, state compared as is (not generated; used by findings/ plans)
            if (live(o)) return false;
            { Sut s; new (env->slots.at((size_t)o)) A{}; } env->slots.live[o] = true;
            after_construct(o); env->applied(op, on + " " + shape_str(model[o].shape), true);
            return true;
        }
        if (op == "copy") {
            if (live(o) || !live(src) || src == o) return false;
            { Sut s; new (env->slots.at((size_t)o)) A(*obj(src)); } env->slots.live[o] = true; model[o] = model[src];
            env->applied(op, on + "<-o" + std::to_string(src) + " " + shape_str(model[o].shape), true); env->interesting = true; return true;
        }
        if (!live(o)) return false;
        A& a = *obj(o);
        if (op == "resize") {
            if (Tr::constant_shape || Tr::family == LEGACY_FIXED) { probe("resize.not_offered"); return false; }
            Shape s = step_shape(st);
            if (Tr::family == LEGACY_HYBRID && (long)s.size() != Tr::fixed_rank) { probe("resize.not_expressible"); return false; }
            int style = (int)(st.arg(7) % 3); if (Tr::family != LEGACY_DYNAMIC) style &= 1;
            bool expect = model_accepts(s);
            Snap before = snapshot(a);
            bool got; { Sut x; got = Acc::resize(a, s, style); }
            std::string note = on + " " + shape_str(model[o].shape) + "->" + shape_str(s) + (expect ? "" : std::string(" refused:") + refusal_cause(s));
            env->applied(op, note, true); env->interesting = true;
            if (got != expect) {
                env->violation("REFUSAL", std::string(Tr::name()) + " resize" + shape_str(s) + " on shape " + shape_str(model[o].shape) + " returned " + (got ? "true" : "false") + ", the kind's definition says " + (expect ? "accept" : std::string("refuse (") + refusal_cause(s) + ")"));
                return true;
            }
            if (!expect) {
                probe(std::string("refused.") + refusal_cause(s));
                Snap after = snapshot(a);
                std::string what;
                if (after.shape != before.shape) what = "shape " + shape_str(before.shape) + " became " + shape_str(after.shape);
                else if (after.strides != before.strides) what = "strides " + shape_str(before.strides) + " became " + shape_str(after.strides);
                else if (after.size != before.size) what = "size() " + std::to_string(before.size) + " became " + std::to_string(after.size);
                else if (after.buflen != before.buflen) what = "buffer length " + std::to_string(before.buflen) + " became " + std::to_string(after.buflen);
                else if (after.bytes != before.bytes) what = "buffer contents changed";
                if (!what.empty()) env->violation("REFUSED_MUTATES", std::string(Tr::name()) + " refused resize" + shape_str(s) + " (" + refusal_cause(s) + ") did not leave the array unchanged: " + what);
                return true;
            }
            if (s.size() != model[o].shape.size()) probe("resize.rank_change");
            if (prod(s) > prod(model[o].shape)) probe("resize.grow"); else if (prod(s) < prod(model[o].shape)) probe("resize.shrink"); else probe("resize.same_numel");
            model[o].shape = s; model[o].val.assign(prod(s), std::nullopt);   // contents after a successful resize are unconstrained
            return true;
        }
        if (op == "write") {
            size_t ne = prod(model[o].shape); if (ne == 0) return false;
            size_t flat = (size_t)n % ne; Shape idx = unravel(flat, model[o].shape);
            E v = val(env->next_value());
            E* q; { Sut x; q = Acc::elem(a, idx); }
            if (!q) return false;
            { Sut x; *q = v; }
            model[o].val[flat] = v;
            env->applied(op, on + " " + shape_str(idx), true); return true;
        }
        if (op == "read") {
            size_t ne = prod(model[o].shape); if (ne == 0) return false;
            size_t flat = (size_t)n % ne; Shape idx = unravel(flat, model[o].shape);
            const E* q; { Sut x; q = Acc::celem(a, idx); }
            env->applied(op, on + " " + shape_str(idx), false);
            if (q && model[o].val[flat] && std::memcmp(q, &*model[o].val[flat], sizeof(E)) != 0)
                env->violation("CONTENT", std::string(Tr::name()) + " read" + shape_str(idx) + " differs from the last value written there");
            return true;
        }
        if (op == "assign_nested") {   // the legacy classes' assignment from a nested braced list of the object's own shape (operator=(initializer_list...) / (T(&&)[..]))
            if constexpr (Tr::family == LEGACY_FIXED || Tr::family == LEGACY_HYBRID || Tr::family == LEGACY_DYNAMIC) {
                const Shape sh = model[o].shape; size_t ne = prod(sh);
                static const Shape menu[] = {{3}, {5}, {8}, {2, 3}, {3, 2}, {3, 4}, {2, 3, 2}, {1, 2, 3}, {2, 3, 4}};
                bool offered = false; for (auto& m : menu) offered |= m == sh;
                if (Tr::family == LEGACY_FIXED) offered = std::is_same_v<A, na::fixed_ndarray<E, 2, 3, 2>>;
                if (!offered) { probe("assign_nested.shape_not_in_menu"); return false; }
                E v[24]; { SimGuard g; for (size_t i = 0; i < ne; i++) v[i] = val(env->next_value()); }
                if constexpr (Tr::family == LEGACY_FIXED) {
                    if constexpr (std::is_same_v<A, na::fixed_ndarray<E, 2, 3, 2>>) { Sut x; a = {{{v[0], v[1]}, {v[2], v[3]}, {v[4], v[5]}}, {{v[6], v[7]}, {v[8], v[9]}, {v[10], v[11]}}}; }
                }
                else if constexpr (Tr::family == LEGACY_HYBRID) assign_nested_rank<Tr::fixed_rank>(a, sh, v);
                else { if (sh.size() == 1) assign_nested_rank<1>(a, sh, v); else if (sh.size() == 2) assign_nested_rank<2>(a, sh, v); else assign_nested_rank<3>(a, sh, v); }
                for (size_t i = 0; i < ne; i++) model[o].val[i] = v[i];
                env->applied(op, on + " " + shape_str(sh), true); env->interesting = true;
                return true;
            } else return false;
        }
        if (op == "assign") {
            if (!live(src)) return false;
            // the legacy classes require equal shapes for assignment (asserted precondition)
            if (Tr::family != NDARRAY && model[o].shape != model[src].shape) { probe("assign.precondition_skipped"); return false; }
            { Sut s; *obj(o) = *obj(src); } { Model tmp = model[src]; model[o] = tmp; }
            env->applied(op, on + "<-o" + std::to_string(src) + " " + shape_str(model[o].shape), true); env->interesting = true; if (src == o) probe("self_assign");
            return true;
        }
        if (op == "assign_foreign") {
            // the legacy classes' templated operator=(const ndarray&): assignment from an array of ANOTHER class with the same shape
            if constexpr (Tr::family == NDARRAY) return false;
            else {
                const Shape& sh = model[o].shape; size_t ne = prod(sh); if (ne == 0) return false;
                std::vector<E> vals; { SimGuard g; for (size_t i = 0; i < ne; i++) vals.push_back(val(env->next_value())); }
                if constexpr (std::is_same_v<A, na::fixed_ndarray<E, 2, 3, 2>>) {
                    using src_t = na::ndarray_t<nmtools_array<E, 12>, nmtools_tuple<meta::ct<(size_t)2>, meta::ct<(size_t)3>, meta::ct<(size_t)2>>>;
                    Sut s; src_t tmp{}; for (size_t i = 0; i < ne; i++) { Shape idx = unravel(i, sh); tmp(idx[0], idx[1], idx[2]) = vals[i]; }
                    a = std::move(tmp);
                } else if constexpr (Tr::family == LEGACY_FIXED) {   // the other fixed shapes: operator= wants a fixed-size source (static_assert); not offered
                    probe("assign_foreign.not_offered"); return false;
                } else {
                    using src_t = na::ndarray_t<std::vector<E>, std::vector<size_t>>;
                    Sut s; src_t tmp{}; tmp.resize(sh); E* p = nm::data(tmp); for (size_t i = 0; i < ne; i++) p[i] = vals[i];
                    a = tmp;
                }
                for (size_t i = 0; i < ne; i++) model[o].val[i] = vals[i];
                env->applied(op, on + " " + shape_str(sh), true); env->interesting = true;
                return true;
            }
        }
        if (op == "cast_kind") { bool r = Tr::cast_kind(*this, o, (int)n); if (r) env->interesting = true; return r; }
        if (op == "cast_dtype") { bool r = Tr::cast_dtype(*this, o, (int)n); if (r) env->interesting = true; return r; }
        if (op == "destroy") { destroy(o); env->applied(op, on, true); return true; }
        return false;
    }

    // element of a cast result through the result's own operator(); the result has the rank of the source
    template <class R> static auto result_elem(R& r, const Shape& idx) -> meta::get_element_type_t<R>* {
        const size_t* p = idx.data();
        switch (idx.size()) {
            case 1: if constexpr (Acc::rank_ok(1)) return &call_idx(r, p, std::make_index_sequence<1>{}); break;
            case 2: if constexpr (Acc::rank_ok(2)) return &call_idx(r, p, std::make_index_sequence<2>{}); break;
            case 3: if constexpr (Acc::rank_ok(3)) return &call_idx(r, p, std::make_index_sequence<3>{}); break;
            case 4: if constexpr (Acc::rank_ok(4)) return &call_idx(r, p, std::make_index_sequence<4>{}); break;
        }
        return nullptr;
    }

    // Check a cast result R against the source's model: same shape, element-wise converted values, independent storage.
    template <class R> void check_cast(long o, R& r, const std::string& what) {
        SimGuard g;   // harness strings must not land on the simulated heap
        const Model& m = model[o];
        Shape rs; { Sut x; rs = to_vec(nm::shape(r)); }
        if (rs != m.shape) { env->violation("CAST", std::string(Tr::name()) + " " + what + ": result shape " + shape_str(rs) + ", source shape " + shape_str(m.shape)); return; }
        using RE = meta::get_element_type_t<R>;
        size_t ne = prod(m.shape);
        Shape rstr = row_major_strides(m.shape);
        for (size_t f = 0; f < ne; f++) {
            if (!m.val[f]) continue;
            Shape idx = unravel(f, m.shape);
            RE got; { Sut x; got = *result_elem(r, idx); }
            RE want = static_cast<RE>(*m.val[f]);
            if (std::memcmp(&got, &want, sizeof(RE)) != 0) { env->violation("CAST", std::string(Tr::name()) + " " + what + ": element " + shape_str(idx) + " is not the converted source value"); return; }
        }
        // independence: a write to the result must not show in the source (and the check_all that follows sees the source)
        if (ne > 0) { Shape idx = unravel(ne - 1, m.shape); Sut x; *result_elem(r, idx) = static_cast<RE>(-7); }
        (void)rstr;
    }

    void check_all(size_t stepno) {
        if (verdict().failed()) return;
        const unsigned char* lo[NOBJ] = {}; const unsigned char* hi[NOBJ] = {};
        for (long o = 0; o < (long)NOBJ; o++) {
            if (!live(o)) continue;
            const A& a = *obj(o); const Model& m = model[o];
            std::string who = std::string(Tr::name()) + " o" + std::to_string(o) + " after step " + std::to_string(stepno) + " (" + env->cur_op + ")";
            Shape sh, st; size_t sz, bl; const E* d;
            { Sut x; sh = Acc::shape(a); st = Acc::strides(a); sz = Acc::size(a); bl = Acc::buflen(a); d = Acc::data(a); }
            if (sh != m.shape) { env->violation("SHAPE", who + ": shape() = " + shape_str(sh) + ", expected " + shape_str(m.shape)); return; }
            size_t ne = prod(sh);
            if (sz != ne) { env->violation("NUMEL", who + ": product(shape()) = " + std::to_string(ne) + " but size() = " + std::to_string(sz)); return; }
            if (ne > bl) { env->violation("NUMEL", who + ": shape " + shape_str(sh) + " needs " + std::to_string(ne) + " elements, the buffer holds " + std::to_string(bl)); return; }
            if (Tr::family == NDARRAY && (Tr::buffer_kind == 'd' || Tr::buffer_kind == 'h') && ne != bl) { env->violation("NUMEL", who + ": resizable buffer holds " + std::to_string(bl) + " elements for shape " + shape_str(sh)); return; }
            // strides(): row-major strides of the shape (this is what the baseline asserts for both layouts; the layout itself is
            // checked through element addresses below)
            if (st != row_major_strides(sh)) { env->violation("STRIDES", who + ": strides() = " + shape_str(st) + " for shape " + shape_str(sh)); return; }
            Shape lay = Tr::col_major ? col_major_strides(sh) : row_major_strides(sh);
            if (ne <= 64) for (size_t f = 0; f < ne; f++) {
                Shape idx = unravel(f, sh);
                const E* q; { Sut x; q = Acc::celem(a, idx); }
                if (!q) break;
                long off = (long)(q - d);
                if constexpr (Tr::family == LEGACY_HYBRID || Tr::family == LEGACY_DYNAMIC) {
                    const E* q2; { Sut x; q2 = Acc::elem_at(a, idx); }
                    if (q2 != q) { env->violation("LAYOUT", who + ": at(" + shape_str(idx) + ") addresses buffer offset " + std::to_string((long)(q2 - d)) + " but operator() addresses offset " + std::to_string(off)); return; }
                }
                if (off != (long)dot(idx, lay)) { env->violation("LAYOUT", who + ": element " + shape_str(idx) + " lives at buffer offset " + std::to_string(off) + ", the " + (Tr::col_major ? "column" : "row") + "-major layout of " + shape_str(sh) + " puts it at " + std::to_string(dot(idx, lay))); return; }
                if (m.val[f] && std::memcmp(q, &*m.val[f], sizeof(E)) != 0) { env->violation("CONTENT", who + ": element " + shape_str(idx) + " differs from the last value written there"); return; }
            }
            if (ne > 0) { lo[o] = (const unsigned char*)d; hi[o] = lo[o] + ne * sizeof(E); }
            // storage ownership: inside the object's slot or inside one live heap block that is large enough
            if (ne > 0) {
                bool in_slot = env->slots.inside((size_t)o, d, ne * sizeof(E));
                int blk = host_heap().block_of(d); bool in_heap = false;
                if (blk >= 0) { auto& B = host_heap().blocks()[(size_t)blk]; size_t off = (size_t)((const unsigned char*)d - host_heap().base()) - B.off; in_heap = B.live && off + ne * sizeof(E) <= B.req; }
                if (!in_slot && !in_heap) { env->violation("SPAN", who + ": element storage is not owned by the object (" + host_heap().describe(d) + ")"); return; }
                probe(in_heap ? "storage.heap" : "storage.inline");
            }
        }
        for (long i = 0; i < (long)NOBJ; i++) for (long j = i + 1; j < (long)NOBJ; j++)
            if (lo[i] && lo[j] && lo[i] < hi[j] && lo[j] < hi[i]) { env->violation("ALIAS", std::string(Tr::name()) + " o" + std::to_string(i) + " and o" + std::to_string(j) + " share element storage after " + env->cur_op); return; }
    }
};

// casts available for a source type: kinds whose result type resolves
template <class T, class Tr, class Kind>
bool try_cast_kind(T& tgt, long o, const Kind& kind, const char* kname) {
    using A = typename Tr::A;
    using R = meta::resolve_optype_t<nm::cast_kind_t, A, Kind>;
    if constexpr (meta::is_fail_v<R>) { (void)tgt; (void)o; (void)kind; (void)kname; return false; }
    else {
        // precondition: the target kind must be able to represent the shape. The clipped kinds bound every extent by
        // NMTOOLS_CAST_DEFAULT_CLIPPED_VALUE; only default-constructed shapes such as (1,1,12) exceed it (DESIGN.md, C20 notes)
        if (kname[0] == 'l') for (auto x : tgt.model[o].shape) if (x > (size_t)NMTOOLS_CAST_DEFAULT_CLIPPED_VALUE) { probe("cast.unrepresentable_skipped"); return false; }
        { Sut s; auto r = nm::cast(*tgt.obj(o), kind); tgt.check_cast(o, r, std::string("cast(") + kname + ")"); }
        tgt.env->applied("cast_kind", std::string("o") + std::to_string(o) + " " + kname + " " + shape_str(tgt.model[o].shape), false);
        probe(std::string("cast.") + kname);
        return true;
    }
}

template <class Tr> struct DefaultCasts {
    template <class T> static bool cast_kind(T& tgt, long o, int n) {
        namespace k = na::kind;
        // Only sources with a compile-time shape can name every ndarray kind: for the others the kind resolver of
        // ndarray.hpp is a hard compile error (not a refusal) for the non-clipped kinds, so those pairs are not offered.
        if constexpr (Tr::all_casts) {
            switch (n % 18) {
                case 0: return try_cast_kind<T, Tr>(tgt, o, k::ndarray_cs_fb, "cs_fb"); case 1: return try_cast_kind<T, Tr>(tgt, o, k::ndarray_cs_hb, "cs_hb");
                case 2: return try_cast_kind<T, Tr>(tgt, o, k::ndarray_cs_db, "cs_db"); case 3: return try_cast_kind<T, Tr>(tgt, o, k::ndarray_fs_fb, "fs_fb");
                case 4: return try_cast_kind<T, Tr>(tgt, o, k::ndarray_fs_hb, "fs_hb"); case 5: return try_cast_kind<T, Tr>(tgt, o, k::ndarray_fs_db, "fs_db");
                case 6: return try_cast_kind<T, Tr>(tgt, o, k::ndarray_hs_fb, "hs_fb"); case 7: return try_cast_kind<T, Tr>(tgt, o, k::ndarray_hs_hb, "hs_hb");
                case 8: return try_cast_kind<T, Tr>(tgt, o, k::ndarray_hs_db, "hs_db"); case 9: return try_cast_kind<T, Tr>(tgt, o, k::ndarray_ds_fb, "ds_fb");
                case 10: return try_cast_kind<T, Tr>(tgt, o, k::ndarray_ds_hb, "ds_hb"); case 11: return try_cast_kind<T, Tr>(tgt, o, k::ndarray_ds_db, "ds_db");
                case 12: return try_cast_kind<T, Tr>(tgt, o, k::ndarray_ls_fb, "ls_fb"); case 13: return try_cast_kind<T, Tr>(tgt, o, k::ndarray_ls_hb, "ls_hb");
                case 14: return try_cast_kind<T, Tr>(tgt, o, k::ndarray_ls_db, "ls_db"); case 15: return try_cast_kind<T, Tr>(tgt, o, k::fixed, "fixed");
                case 16: return try_cast_kind<T, Tr>(tgt, o, k::hybrid, "hybrid"); default: return try_cast_kind<T, Tr>(tgt, o, k::dynamic, "dynamic");
            }
        } else {
            switch (n % 4) {
                case 0: return try_cast_kind<T, Tr>(tgt, o, k::ndarray_ls_fb, "ls_fb"); case 1: return try_cast_kind<T, Tr>(tgt, o, k::ndarray_ls_hb, "ls_hb");
                case 2: return try_cast_kind<T, Tr>(tgt, o, k::ndarray_ls_db, "ls_db"); default: return try_cast_kind<T, Tr>(tgt, o, k::dynamic, "dynamic");
            }
        }
    }
    template <class T, class D> static bool one_dtype(T& tgt, long o, const char* dn) {
        { Sut s; auto r = nm::cast<D>(*tgt.obj(o)); tgt.check_cast(o, r, std::string("cast<") + dn + ">"); }
        tgt.env->applied("cast_dtype", std::string("o") + std::to_string(o) + " " + dn + " " + shape_str(tgt.model[o].shape), false);
        probe(std::string("cast_dtype.") + dn);
        return true;
    }
    template <class T> static bool cast_dtype(T& tgt, long o, int n) {
        switch (n % 3) { case 0: return one_dtype<T, double>(tgt, o, "double"); case 1: return one_dtype<T, float>(tgt, o, "float"); default: return one_dtype<T, long>(tgt, o, "long"); }
    }
};

} // namespace c20
