#define VIEW_GROUP 1
#include "views.hpp"
namespace c20 {
#include "views.inc"
}
