// C20 engine: picks an array class per run, draws heap behaviour and history, interprets it.
#include "../../sim/rng.hpp"
#include "../../sim/plan.hpp"
#include "../../sim/trace.hpp"
#include "../../sim/hostheap.hpp"
#include "../../sim/runner.hpp"
#include "env.hpp"

namespace c20 {
std::vector<Target*>& registry() { static std::vector<Target*> r; return r; }

struct C20Engine : sim::Engine {
    Env env; std::string only;
    const char* property() const override { return "C20"; }
    const char* name() const override { return "arrays"; }
    std::vector<Target*> candidates() { std::vector<Target*> c; for (auto t : registry()) if (only.empty() || t->name().find(only) != std::string::npos) c.push_back(t); return c; }
    Plan generate(uint64_t run_seed, const std::string& tier) override {
        Rng root(run_seed); Plan p; auto c = candidates(); Rng pr = root.derive("plan");
        Target* t = c[pr.below(c.size())];
        p.set("property", "C20"); p.set("target", t->name());
        gen_heapcfg(p, root.derive("heap"));
        t->gen_steps(p, pr, tier);
        return p;
    }
    void execute(const Plan& p) override {
        Target* t = nullptr; for (auto x : registry()) if (x->name() == p.get("target")) t = x;
        if (!t) { fail("INFRA", "unknown target " + p.get("target")); return; }
        env.reset(p); t->run(p, env);
        sig = fnv1a(env.target + "|" + env.sigstr); nontrivial = env.changing >= 3 && env.interesting; ticks = env.ticks;
        probe("runs." + env.target);
        probe(std::string("heap.policy.") + HeapCfg::reuse_name((int)p.geti("heap.reuse")));
    }
};
}
int main(int argc, char** argv) {
    c20::C20Engine e;
    for (int i = 1; i + 1 < argc; i++) if (std::string(argv[i]) == "--target") e.only = argv[i + 1];
    if (argc > 1 && std::string(argv[1]) == "--list") { for (auto t : c20::registry()) printf("%s\n", t->name().c_str()); return 0; }
    return sim::sim_main(argc, argv, e);
}
