#define VIEW_GROUP 0
#include "views.hpp"
namespace c20 {
#include "views.inc"
}
