#define VIEW_GROUP 2
#include "views.hpp"
namespace c20 {
#include "views.inc"
}
