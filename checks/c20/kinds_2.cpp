#define KIND_GROUP 2
#include "arr.hpp"
namespace c20 {
#include "kinds.inc"
}
