#define KIND_GROUP 3
#include "arr.hpp"
namespace c20 {
#include "kinds.inc"
}
