#define KIND_GROUP 6
#include "arr.hpp"
namespace c20 {
#include "kinds.inc"
}
