#define KIND_GROUP 1
#include "arr.hpp"
namespace c20 {
#include "kinds.inc"
}
