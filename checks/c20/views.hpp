// C20 part B: mutable views (ref / flatten / reshape / slice) as interleaved writers on one shared source array.
// The model is one logical array plus, per view, an independently written index map (row-major unravel, Python slice
// semantics) -- it never calls nmtools index functions. After every write the full snapshot of the source buffer must
// differ from the previous one in exactly the predicted element.
#pragma once
#include <functional>
#include <memory>
#include "arr.hpp"
#include "nmtools/array/view/mutable_ref.hpp"
#include "nmtools/array/view/mutable_flatten.hpp"
#include "nmtools/array/view/mutable_reshape.hpp"
#include "nmtools/array/view/mutable_slice.hpp"

namespace c20 {
namespace view = nmtools::view;

template <class E> struct Client {
    std::string what; Shape shape; std::vector<size_t> map;   // view flat index -> logical (row-major) flat index of the source
    std::function<E(const Shape&)> read; std::function<void(const Shape&, E)> write;
    std::function<void(const std::vector<E>&)> assign_all;   // view = ndarray of the view's shape (mutable_indexing_t::operator=), when offered
};

// one slice per axis: form 0 (None,None,step), form 1 (start,stop,step>0), form 2 integer index (possibly negative),
// form 3 two-element (start,stop), form 4 two-element (None,stop), form 5 two-element (start,None), form 6 (start,None,step) with either sign
// of step.  Starts are in range and may be spelled as negative indices; stops may be spelled negative or lie up to 2 beyond the extent
// (clipped, as numpy does).  Negative steps together with an explicit stop are not drawn: the baseline suite pins a non-numpy
// meaning for them (index/slice case32: a[...,0:-1:-1] has one element), so there is no agreed reference (DESIGN.md section 7).
struct SliceSpec { int form; long a, b, c; };
inline long norm_index(long v, size_t n) { return v < 0 ? v + (long)n : v; }
// Python's slice.indices(), written from the language definition; none_a / none_b: the bound is omitted
inline std::vector<size_t> py_slice(long n, bool none_a, long a, bool none_b, long b, long step) {
    std::vector<size_t> r;
    long lo = step < 0 ? -1 : 0, hi = step < 0 ? n - 1 : n;
    auto res = [&](bool none, long v, long dflt) { if (none) return dflt; if (v < 0) { v += n; return v < lo ? lo : v; } return v > hi ? hi : v; };
    long start = res(none_a, a, step < 0 ? hi : lo), stop = res(none_b, b, step < 0 ? lo : hi);
    if (step > 0) for (long i = start; i < stop; i += step) r.push_back((size_t)i);
    else for (long i = start; i > stop; i += step) r.push_back((size_t)i);
    return r;
}
inline std::vector<size_t> slice_indices(const SliceSpec& s, size_t n) {
    switch (s.form) {
        case 0: return py_slice((long)n, true, 0, true, 0, s.c);
        case 1: return py_slice((long)n, false, s.a, false, s.b, s.c);
        case 3: return py_slice((long)n, false, s.a, false, s.b, 1);
        case 4: return py_slice((long)n, true, 0, false, s.b, 1);
        case 5: return py_slice((long)n, false, s.a, true, 0, 1);
        case 6: return py_slice((long)n, false, s.a, true, 0, s.c);
        default: return {(size_t)norm_index(s.a, n)};
    }
}
inline SliceSpec make_spec(long form, long p, long q, long st, size_t n) {
    SliceSpec s; s.form = (int)(form % 5); s.a = s.b = s.c = 0;
    long hi = form / 5;   // the upper part of the argument selects the newer forms and the out-of-range stops (older plans keep their meaning)
    if (hi % 3 == 2 && s.form == 3) s.form = 5;
    else if (hi % 3 == 2 && s.form == 4) s.form = 6;
    long beyond = (hi % 4 == 3) ? 1 + (hi / 4) % 2 : 0;   // stop = extent + 1 or + 2
    if (s.form == 0) { static const long steps[] = {1, 2, -1, -2, 3, -3}; s.c = steps[st % 6]; }
    else if (s.form == 1) { s.a = p % (long)n; s.b = s.a + 1 + q % ((long)n - s.a); s.c = 1 + st % 2; if (beyond) s.b = (long)n + beyond; }
    else if (s.form == 3) {   // 0 <= start < stop, each bound then possibly spelled as a negative index (stop == n has no negative spelling)
        long a = p % (long)n, b = a + 1 + q % ((long)n - a);
        s.a = (st & 1) && a > 0 ? a - (long)n : a; if ((st & 4) && a == 0 && n > 0) s.a = 0;
        s.b = (st & 2) && b < (long)n ? b - (long)n : b; s.c = 1;
        if (beyond) s.b = (long)n + beyond;
    } else if (s.form == 4) { long b = 1 + q % (long)n; s.b = (st & 1) && b < (long)n ? b - (long)n : b; s.c = 1; if (beyond) s.b = (long)n + beyond; }
    else if (s.form == 5) { long a = p % (long)n; s.a = (st & 1) ? a - (long)n : a; s.c = 1; }
    else if (s.form == 6) { static const long steps[] = {1, 2, -1, -2, 3}; long a = p % (long)n; s.a = (st & 1) ? a - (long)n : a; s.c = steps[(st / 2) % 5]; }
    else { long a = p % (long)n; s.a = (st & 1) ? a - (long)n : a; }
    return s;
}
inline std::string spec_str(const SliceSpec& s) {
    if (s.form == 0) return "[::" + std::to_string(s.c) + "]";
    if (s.form == 1) return "[" + std::to_string(s.a) + ":" + std::to_string(s.b) + ":" + std::to_string(s.c) + "]";
    if (s.form == 3) return "[" + std::to_string(s.a) + ":" + std::to_string(s.b) + "]";
    if (s.form == 4) return "[:" + std::to_string(s.b) + "]";
    if (s.form == 5) return "[" + std::to_string(s.a) + ":]";
    if (s.form == 6) return "[" + std::to_string(s.a) + "::" + std::to_string(s.c) + "]";
    return "[" + std::to_string(s.a) + "]";
}

template <class V, class E> void bind_assign(Client<E>& c, std::shared_ptr<V> pv) {
    using src_t = na::ndarray_t<std::vector<E>, std::vector<size_t>>;
    if constexpr (std::is_assignable<V&, const src_t&>::value) {
        Shape vs = c.shape;
        c.assign_all = [pv, vs](const std::vector<E>& vals) { src_t tmp{}; tmp.resize(vs); E* p = nm::data(tmp); for (size_t i = 0; i < vals.size(); i++) p[i] = vals[i]; (*pv) = tmp; };
    }
}

template <class V, class E> void bind_view(Client<E>& c, V v) {
    auto pv = std::make_shared<V>(v);
    c.read = [pv](const Shape& idx) -> E { const V& cv = *pv; const size_t* p = idx.data();
        switch (idx.size()) { case 1: return cv(p[0]); case 2: return cv(p[0], p[1]); case 3: return cv(p[0], p[1], p[2]); default: return cv(p[0], p[1], p[2], p[3]); } };
    c.write = [pv](const Shape& idx, E val) { V& mv = *pv; const size_t* p = idx.data();
        switch (idx.size()) { case 1: mv(p[0]) = val; break; case 2: mv(p[0], p[1]) = val; break; case 3: mv(p[0], p[1], p[2]) = val; break; default: mv(p[0], p[1], p[2], p[3]) = val; } };
    bind_assign(c, pv);
}
// views whose rank is fixed at compile time (slices): only that rank may be instantiated
template <size_t R, class V, class E> void bind_view_rank(Client<E>& c, V v) {
    auto pv = std::make_shared<V>(v);
    c.read = [pv](const Shape& idx) -> E { const V& cv = *pv; return call_idx(cv, idx.data(), std::make_index_sequence<R>{}); };
    c.write = [pv](const Shape& idx, E val) { V& mv = *pv; call_idx(mv, idx.data(), std::make_index_sequence<R>{}) = val; };
    bind_assign(c, pv);
}

template <class Tr>
struct ViewTarget : Target {
    using A = typename Tr::A; using E = typename Tr::E; using Acc = Access<Tr>;
    std::string nm;
    ViewTarget() : nm(std::string("views:") + Tr::name()) { static_assert(sizeof(A) <= SLOTB); }
    std::string name() const override { return nm; }
    static E val(long k) { return (E)k; }

    void gen_steps(Plan& p, Rng& r, const std::string& tier) override {
        p.seti("nobj", 1);
        auto rnd = [&](Step& s) { for (int i = 0; i < 10; i++) s.a.push_back((long)r.below(24)); };
        { Step s; s.op = "setup"; rnd(s); p.steps.push_back(s); }
        size_t nv = 1 + r.below(3);
        for (size_t i = 0; i < nv; i++) { Step s; s.op = "view"; rnd(s); s.a[0] = (long)r.below(5); if (r.chance(0.35)) s.a[0] = 2; p.steps.push_back(s); }
        size_t len = (tier == "thorough" ? 4 + r.below(40) : 3 + r.below(20));
        for (size_t k = 0; k < len; k++) {
            Step s; s.op = r.chance(0.75) ? "write" : (r.chance(0.4) ? "read" : r.chance(0.5) ? "view" : "assign_view"); rnd(s);
            if (s.op == "view") { s.a[0] = (long)r.below(5); }
            s.a[1] = (long)r.below(64);
            p.steps.push_back(s);
        }
    }

    Env* env = nullptr; A* arr = nullptr; Shape shape; std::vector<std::optional<E>> model; std::vector<Client<E>> clients;
    std::vector<unsigned char> snap;

    const unsigned char* buf() { const E* d; { Sut x; d = Acc::data(*arr); } return (const unsigned char*)d; }
    size_t buf_bytes() { size_t bl; { Sut x; bl = Acc::buflen(*arr); } return bl * sizeof(E); }
    void take_snapshot() { SimGuard g; const unsigned char* b = buf(); snap.assign(b, b + buf_bytes()); }

    void run(const Plan& p, Env& e) override {
        env = &e; clients.clear(); arr = nullptr; shape.clear(); model.clear();
        size_t k = 0;
        for (auto& st : p.steps) {
            env->begin_step(st.op);
            apply(st, k);
            if (verdict().failed()) break;
            env->heap_check();
            if (verdict().failed()) break;
            k++;
        }
        clients.clear();   // views first, then the source
        if (arr) { env->begin_step("final_destroy"); { Sut s; arr->~A(); } env->slots.kill(0); }
        if (!verdict().failed()) { env->begin_step("end"); env->heap_check(); env->final_leak_check(); }
    }

    void setup(const Step& st) {
        { Sut s; arr = new (env->slots.at(0)) A{}; } env->slots.live[0] = true;
        if constexpr (Tr::family == LEGACY_FIXED || Tr::constant_shape) { Sut x; shape = Acc::shape(*arr); }
        else {
            // a seeded shape this kind accepts (rank 2 or 3; fixed element count where the kind demands it)
            static const size_t twelve[][3] = {{2, 3, 2}, {3, 2, 2}, {2, 2, 3}, {4, 3, 1}, {1, 4, 3}, {6, 2, 1}, {2, 6, 1}, {3, 4, 1}};
            Shape s;
            if (Tr::fixed_numel >= 0 || Tr::max_numel >= 0) { auto& t = twelve[(size_t)st.arg(1) % 8]; s = {t[0], t[1], t[2]}; if (Tr::fixed_rank < 0 && Tr::max_rank != 3 && t[2] == 1 && (st.arg(2) & 1)) s.pop_back(); }
            else { long r = 2 + st.arg(1) % 2; for (long i = 0; i < r; i++) s.push_back((size_t)(1 + st.arg(2 + (size_t)i) % 4)); }
            if (Tr::fixed_rank >= 0) { while ((long)s.size() < Tr::fixed_rank) s.push_back(1); while ((long)s.size() > Tr::fixed_rank) { s[s.size() - 2] *= s.back(); s.pop_back(); } }
            if (Tr::clip >= 0) s = {2, 3, 2};
            bool ok; { Sut x; ok = Acc::resize(*arr, s, (int)st.arg(9) & 1); }
            if (!ok) { env->violation("REFUSAL", nm + " resize" + shape_str(s) + " for the view source was refused"); return; }
            shape = s;
        }
        model.assign(prod(shape), std::nullopt);
        // the source itself is client 0
        Client<E> c; c.what = "source"; c.shape = shape; for (size_t i = 0; i < prod(shape); i++) c.map.push_back(i);
        A* a = arr;
        c.read = [a](const Shape& idx) -> E { const E* q; { q = Acc::celem(*a, idx); } return q ? *q : E{}; };
        c.write = [a](const Shape& idx, E v) { E* q = Acc::elem(*a, idx); if (q) *q = v; };
        clients.push_back(std::move(c));
        take_snapshot();
        env->applied("setup", shape_str(shape), true);
    }

    template <class V> bool shape_ok(Client<E>& c, const V& v) {
        Shape vs = to_vec(nm::shape(v));
        if (vs != c.shape) { env->violation("VIEW_SHAPE", nm + " " + c.what + " over shape " + shape_str(shape) + " reports shape " + shape_str(vs) + ", expected " + shape_str(c.shape)); return false; }
        return true;
    }
    template <class V> bool finish_view(Client<E>& c, V& v) {
        if constexpr (meta::is_maybe_v<V>) {
            if (!static_cast<bool>(v)) { env->violation("VIEW_REFUSED", nm + " " + c.what + " over shape " + shape_str(shape) + " was refused (Nothing) although it is valid"); return false; }
            if (!shape_ok(c, *v)) return false;
            bind_view(c, *v); return true;
        } else { if (!shape_ok(c, v)) return false; bind_view(c, v); return true; }
    }
    template <size_t R, class V> bool finish_view_rank(Client<E>& c, V& v) {
        if constexpr (meta::is_maybe_v<V>) {
            if (!static_cast<bool>(v)) { env->violation("VIEW_REFUSED", nm + " " + c.what + " over shape " + shape_str(shape) + " was refused (Nothing) although it is valid"); return false; }
            if (!shape_ok(c, *v)) return false;
            bind_view_rank<R>(c, *v); return true;
        } else { if (!shape_ok(c, v)) return false; bind_view_rank<R>(c, v); return true; }
    }

    // ---- slices: the per-axis argument types are compile-time, so every form combination is its own instantiation -------
    template <int F> static auto slice_arg(const SliceSpec& s) {
        if constexpr (F == 0) return nmtools_tuple{nm::None, nm::None, (int)s.c};
        else if constexpr (F == 1) return nmtools_tuple{(int)s.a, (int)s.b, (int)s.c};
        else if constexpr (F == 3) return nmtools_tuple{(int)s.a, (int)s.b};
        else if constexpr (F == 4) return nmtools_tuple{nm::None, (int)s.b};
        else if constexpr (F == 5) return nmtools_tuple{(int)s.a, nm::None};
        else if constexpr (F == 6) return nmtools_tuple{(int)s.a, nm::None, (int)s.c};
        else return (int)s.a;
    }
    template <int F0, int F1> bool make_slice2(Client<E>& c, const SliceSpec* sp) {
        constexpr size_t R = (F0 != 2) + (F1 != 2);
        if constexpr (R == 0) return false;
        else { Sut x; auto v = view::mutable_slice(*arr, slice_arg<F0>(sp[0]), slice_arg<F1>(sp[1])); SimGuard g; return finish_view_rank<R>(c, v); }
    }
    template <int F0, int F1, int F2> bool make_slice3(Client<E>& c, const SliceSpec* sp) {
        constexpr size_t R = (F0 != 2) + (F1 != 2) + (F2 != 2);
        if constexpr (R == 0) return false;
        else { Sut x; auto v = view::mutable_slice(*arr, slice_arg<F0>(sp[0]), slice_arg<F1>(sp[1]), slice_arg<F2>(sp[2])); SimGuard g; return finish_view_rank<R>(c, v); }
    }
    bool make_slice(Client<E>& c, const Step& st) {
        size_t R = shape.size();
        if (R != 2 && R != 3) return false;
        SliceSpec sp[3];
        for (size_t i = 0; i < R; i++) sp[i] = make_spec(st.arg(1 + 3 * i), st.arg(2 + 3 * i), st.arg(3 + 3 * i), st.arg(2 + 3 * i) + st.arg(3 + 3 * i), shape[i]);
        if (R == 3) {   // rank 3: only a subset of the 125 form combinations is instantiated; the others fall back to (::s, ::s, ::s)
            static const int supported[][3] = {{0,0,0},{0,0,1},{0,1,0},{1,0,0},{0,1,1},{1,1,1},{0,1,2},{1,0,2},{2,0,0},{0,2,0},{0,0,2},{2,1,0},{3,0,0},{0,3,0},{0,0,3},{3,3,3},{4,0,3},{0,4,2},{3,4,0},{5,0,0},{0,6,0},{0,0,5},{6,2,5},{1,6,6},{5,3,4}};
            bool ok = false; for (auto& x : supported) ok |= x[0] == sp[0].form && x[1] == sp[1].form && x[2] == sp[2].form;
            if (!ok) for (size_t i = 0; i < 3; i++) if (sp[i].form != 0) { sp[i].form = 0; sp[i].c = 1; }
        } else if (sp[0].form == 2 && sp[1].form == 2) sp[1] = SliceSpec{0, 0, 0, 1};
        // the model's map: cartesian product of the per-axis index lists, integer-indexed axes dropped from the view shape
        std::vector<std::vector<size_t>> ax; c.shape.clear(); c.what = "slice"; c.map.clear();
        for (size_t i = 0; i < R; i++) { ax.push_back(slice_indices(sp[i], shape[i])); if (sp[i].form != 2) c.shape.push_back(ax.back().size()); c.what += spec_str(sp[i]); }
        Shape rs = row_major_strides(shape);
        if (R == 2) { for (auto i : ax[0]) for (auto j : ax[1]) c.map.push_back(i * rs[0] + j * rs[1]); }
        else { for (auto i : ax[0]) for (auto j : ax[1]) for (auto k : ax[2]) c.map.push_back(i * rs[0] + j * rs[1] + k * rs[2]); }
        for (size_t i = 0; i < R; i++) probe("slice.form" + std::to_string(sp[i].form));
        if constexpr (Tr::fixed_rank == 2 || Tr::fixed_rank < 0) if (R == 2) return dispatch2(c, sp);
        if constexpr (Tr::fixed_rank == 3 || Tr::fixed_rank < 0) if (R == 3) {
            int f0 = sp[0].form, f1 = sp[1].form, f2 = sp[2].form;
#define S3(A, B, C) if (f0 == A && f1 == B && f2 == C) return make_slice3<A, B, C>(c, sp);
            S3(0,0,0) S3(0,0,1) S3(0,1,0) S3(1,0,0) S3(0,1,1) S3(1,1,1) S3(0,1,2) S3(1,0,2) S3(2,0,0) S3(0,2,0) S3(0,0,2) S3(2,1,0) S3(3,0,0) S3(0,3,0) S3(0,0,3) S3(3,3,3) S3(4,0,3) S3(0,4,2) S3(3,4,0) S3(5,0,0) S3(0,6,0) S3(0,0,5) S3(6,2,5) S3(1,6,6) S3(5,3,4)
#undef S3
        }
        return false;
    }
    template <int F0> bool dispatch2b(Client<E>& c, const SliceSpec* sp) {
        switch (sp[1].form) { case 0: return make_slice2<F0, 0>(c, sp); case 1: return make_slice2<F0, 1>(c, sp); case 2: return make_slice2<F0, 2>(c, sp); case 3: return make_slice2<F0, 3>(c, sp); case 4: return make_slice2<F0, 4>(c, sp); case 5: return make_slice2<F0, 5>(c, sp); default: return make_slice2<F0, 6>(c, sp); }
    }
    bool dispatch2(Client<E>& c, const SliceSpec* sp) {
        switch (sp[0].form) { case 0: return dispatch2b<0>(c, sp); case 1: return dispatch2b<1>(c, sp); case 2: return dispatch2b<2>(c, sp); case 3: return dispatch2b<3>(c, sp); case 4: return dispatch2b<4>(c, sp); case 5: return dispatch2b<5>(c, sp); default: return dispatch2b<6>(c, sp); }
    }

    void add_view(const Step& st) {
        if (!arr || clients.size() >= 4) return;
        Client<E> c; size_t n = prod(shape); bool ok = false;
        long kind = st.arg(0) % 5;
        if (kind == 0) {
            c.what = "flatten"; c.shape = {n}; for (size_t i = 0; i < n; i++) c.map.push_back(i);
            { Sut x; auto v = view::mutable_flatten(*arr); SimGuard g; ok = finish_view_rank<1>(c, v); }
        } else if (kind == 1) {
            // reshape to a seeded factorisation of n (rank 1..3)
            Shape ns; size_t rem = n; long parts = 1 + st.arg(1) % 4;
            for (long i = 0; i + 1 < parts; i++) { size_t f = 1; for (size_t k = 1 + (size_t)st.arg(2 + (size_t)i) % 6; k >= 1; k--) if (rem % k == 0) { f = k; break; } ns.push_back(f); rem /= f; }
            ns.push_back(rem);
            c.what = "reshape" + shape_str(ns); c.shape = ns; for (size_t i = 0; i < n; i++) c.map.push_back(i);
            { Sut x; std::vector<size_t> dst(ns.begin(), ns.end()); auto v = view::mutable_reshape(*arr, dst); SimGuard g; ok = finish_view(c, v); }
        } else if (kind == 2) {
            ok = make_slice(c, st);
        } else if (kind == 4) {
            // raw-pointer flavour: a 1-d view over the source's BUFFER; buffer position f holds the logical element whose
            // layout offset is f (identity for row-major sources)
            c.what = "ref_ptr"; c.shape = {n}; c.map.assign(n, 0);
            Shape lay = Tr::col_major ? col_major_strides(shape) : row_major_strides(shape);
            for (size_t L = 0; L < n; L++) c.map[dot(unravel(L, shape), lay)] = L;
            E* p; { Sut x; p = const_cast<E*>(Acc::data(*arr)); }
            { Sut x; auto v = view::mutable_ref(p, n); SimGuard g; ok = finish_view_rank<1>(c, v); }
        } else {
            c.what = "ref"; c.shape = shape; for (size_t i = 0; i < n; i++) c.map.push_back(i);
            { Sut x; auto v = view::mutable_ref(*arr); SimGuard g; if constexpr (Tr::fixed_rank >= 0) ok = finish_view_rank<(size_t)Tr::fixed_rank>(c, v); else ok = finish_view(c, v); }
        }
        if (verdict().failed() || !ok) return;
        if (prod(c.shape) != c.map.size()) { fail("INFRA", "model map size mismatch for " + c.what); return; }
        probe("view." + c.what.substr(0, c.what.find_first_of("([")));
        env->applied("view", c.what, true);
        clients.push_back(std::move(c));
        if (clients.size() >= 3) env->interesting = true;
    }

    void apply(const Step& st, size_t stepno) {
        if (st.op == "setup") { if (!arr) setup(st); return; }
        if (!arr) return;
        if (st.op == "view") { add_view(st); if (!verdict().failed()) check_all(stepno); return; }
        size_t ci = (size_t)st.arg(0) % clients.size(); Client<E>& c = clients[ci];
        size_t vn = c.map.size(); if (vn == 0) return;
        size_t vf = (size_t)st.arg(1) % vn; Shape idx = unravel(vf, c.shape); size_t L = c.map[vf];
        if (st.op == "write") {
            E v = val(env->next_value());
            { Sut x; c.write(idx, v); }
            model[L] = v;
            env->applied("write", c.what + shape_str(idx), true); if (ci > 0) env->interesting = true;
            // EXACTLY_ONE: the source buffer changed in exactly the predicted element
            Shape lay = Tr::col_major ? col_major_strides(shape) : row_major_strides(shape);
            size_t off = dot(unravel(L, shape), lay) * sizeof(E);
            const unsigned char* b = buf(); size_t nb = buf_bytes();
            if (nb != snap.size()) { env->violation("EXACTLY_ONE", nm + ": the source buffer changed its length after a write through " + c.what); return; }
            for (size_t i = 0; i < nb; i++) if (b[i] != snap[i] && !(i >= off && i < off + sizeof(E))) {
                env->violation("EXACTLY_ONE", nm + ": write through " + c.what + shape_str(idx) + " must change source element " + shape_str(unravel(L, shape)) + " (buffer offset " + std::to_string(off / sizeof(E)) + ") only, but buffer element " + std::to_string(i / sizeof(E)) + " changed");
                return;
            }
            E now; std::memcpy(&now, b + off, sizeof(E));
            if (std::memcmp(&now, &v, sizeof(E)) != 0) { env->violation("EXACTLY_ONE", nm + ": write through " + c.what + shape_str(idx) + " did not reach source element " + shape_str(unravel(L, shape))); return; }
            take_snapshot();
            check_all(stepno);
        } else if (st.op == "assign_view") {
            if (!c.assign_all) { probe("assign_view.not_offered"); return; }
            std::vector<E> vals; for (size_t i = 0; i < vn; i++) vals.push_back(val(env->next_value()));
            { Sut x; c.assign_all(vals); }
            // the model: every mapped element gets its value, in view order (a later view index wins if two map to one element)
            std::vector<char> touched(model.size(), 0);
            for (size_t i = 0; i < vn; i++) { model[c.map[i]] = vals[i]; touched[c.map[i]] = 1; }
            env->applied("assign_view", c.what, true); env->interesting = true;
            Shape lay = Tr::col_major ? col_major_strides(shape) : row_major_strides(shape);
            const unsigned char* b = buf(); size_t nb = buf_bytes();
            std::vector<char> allowed(nb, 0);
            for (size_t Lx = 0; Lx < model.size(); Lx++) if (touched[Lx]) { size_t off = dot(unravel(Lx, shape), lay) * sizeof(E); for (size_t k2 = 0; k2 < sizeof(E) && off + k2 < nb; k2++) allowed[off + k2] = 1; }
            for (size_t i = 0; i < nb && i < snap.size(); i++) if (b[i] != snap[i] && !allowed[i]) { env->violation("EXACTLY_ONE", nm + ": assignment to " + c.what + " changed buffer element " + std::to_string(i / sizeof(E)) + " which the view does not address"); return; }
            take_snapshot();
            check_all(stepno);
        } else if (st.op == "read") {
            E got; { Sut x; got = c.read(idx); }
            env->applied("read", c.what + shape_str(idx), false);
            if (model[L] && std::memcmp(&got, &*model[L], sizeof(E)) != 0) env->violation("VIEW_CONTENT", nm + ": read through " + c.what + shape_str(idx) + " differs from the last value written to source element " + shape_str(unravel(L, shape)));
        }
    }

    // every client reads back the model's values
    void check_all(size_t) {
        for (auto& c : clients) for (size_t vf = 0; vf < c.map.size(); vf++) {
            size_t L = c.map[vf]; if (!model[L]) continue;
            Shape idx = unravel(vf, c.shape);
            E got; { Sut x; got = c.read(idx); }
            if (std::memcmp(&got, &*model[L], sizeof(E)) != 0) { env->violation("VIEW_CONTENT", nm + ": " + c.what + shape_str(idx) + " does not show the value last written to source element " + shape_str(unravel(L, shape)) + " (after " + env->cur_op + ")"); return; }
        }
    }
};

} // namespace c20
