#define KIND_GROUP 4
#include "arr.hpp"
namespace c20 {
#include "kinds.inc"
}
