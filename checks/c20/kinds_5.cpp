#define KIND_GROUP 5
#include "arr.hpp"
namespace c20 {
#include "kinds.inc"
}
